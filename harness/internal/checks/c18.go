package checks

import (
	"fmt"
	"go/parser"
	"go/token"
	"os"
	"path/filepath"
	"strings"
	"time"

	"verifharness/internal/core"
	"verifharness/internal/engine"
	"verifharness/internal/sgen"
)

// ungeneratable elements (C18's list): unknown type, reference to a missing definition / file, empty enum,
// non-primitive enum, array declaration without items.
var ungeneratable = map[string]sgen.M{
	"unknown-type":       {"type": "foo"},
	"missing-definition": {"$ref": "#/$defs/DoesNotExist"},
	"missing-file":       {"$ref": "does-not-exist.json"},
	"bad-pointer":        {"$ref": "#/properties/x"},
	// a file behind a URL whose request fails at transport level (nothing listens on port 1 of the loopback interface)
	"unreachable-url":    {"$ref": "http://127.0.0.1:1/defs.json#/$defs/Thing"},
	"empty-enum":         {"enum": []any{}},
	"non-primitive-enum": {"enum": []any{sgen.M{"a": 1}}},
	// a typed integer enum must consist of numbers
	"integer-enum-object-member": {"type": "integer", "enum": []any{1, 2, sgen.M{"k": 3}}},
	"integer-enum-string-member": {"type": "integer", "enum": []any{1, "x"}},
}

type injection struct {
	name   string
	schema sgen.M
}

// injections places one ungeneratable element at every kind of position, depth 1..3.
func injections(bad sgen.M, kind string) []injection {
	obj := func(p sgen.M) sgen.M {
		return sgen.M{"type": "object", "properties": sgen.M{"ok": sgen.M{"type": "string"}, "bad": p}}
	}
	arr := func(p sgen.M) sgen.M { return sgen.M{"type": "array", "items": p} }
	root := func(p sgen.M, defs sgen.M) sgen.M {
		s := sgen.M{"$id": "urn:c18", "type": "object", "properties": sgen.M{"a": sgen.M{"type": "integer"}, "p": p}}
		if defs != nil {
			s["$defs"] = defs
		}
		return s
	}
	b := func() sgen.M { return sgen.DeepCopy(bad).(sgen.M) }
	out := []injection{
		{"property", root(b(), nil)},
		{"nested-property", root(obj(b()), nil)},
		{"deep-property", root(obj(obj(b())), nil)},
		{"array-item", root(arr(b()), nil)},
		{"nested-array-item", root(arr(arr(b())), nil)},
		{"item-of-object-array", root(arr(obj(b())), nil)},
		{"definition", root(sgen.M{"type": "string"}, sgen.M{"D": b()})},
		{"definition-property", root(sgen.M{"$ref": "#/$defs/D"}, sgen.M{"D": obj(b())})},
		{"unreferenced-definition-property", root(sgen.M{"type": "string"}, sgen.M{"D": obj(b())})},
		{"allOf-branch", root(sgen.M{"allOf": []any{obj(sgen.M{"type": "string"}), sgen.M{"type": "object", "properties": sgen.M{"z": b()}}}}, nil)},
		{"anyOf-branch", root(sgen.M{"anyOf": []any{obj(sgen.M{"type": "string"}), sgen.M{"type": "object", "properties": sgen.M{"z": b()}}}}, nil)},
		{"additionalProperties-of-map", root(sgen.M{"type": "object", "additionalProperties": b()}, nil)},
	}
	// the element in an inline branch of a composition whose other branches are references, some of them REPEATED (the
	// same definition twice, also through the two spellings of the definitions keyword) or recursive, before / between /
	// after them: branches that are skipped as already in progress must not end the walk over the rest
	shapeDefs := func() sgen.M {
		return sgen.M{
			"A":    sgen.M{"type": "object", "properties": sgen.M{"r": sgen.M{"type": "number"}}},
			"B":    sgen.M{"type": "object", "properties": sgen.M{"w": sgen.M{"type": "number"}}},
			"Tree": sgen.M{"type": "object", "properties": sgen.M{"kids": sgen.M{"type": "array", "items": sgen.M{"$ref": "#/$defs/Tree"}}}},
		}
	}
	ref := func(n string) any { return sgen.M{"$ref": "#/$defs/" + n} }
	for _, kw := range []string{"anyOf", "allOf"} { // (oneOf is not implemented by the tool: its branches are not read at all)
		for li, mk := range []func(x any) []any{
			func(x any) []any { return []any{ref("A"), ref("A"), x} },
			func(x any) []any { return []any{ref("A"), ref("B"), ref("A"), x} },
			func(x any) []any { return []any{ref("A"), x, ref("A")} },
			func(x any) []any { return []any{x, ref("A"), ref("A")} },
			func(x any) []any { return []any{ref("Tree"), ref("Tree"), x, ref("B")} },
			func(x any) []any {
				return []any{ref("A"), ref("B"), ref("B"), ref("A"), obj(sgen.M{"type": "string"}), x}
			},
		} {
			badBranch := sgen.M{"type": "object", "properties": sgen.M{"z": b()}}
			out = append(out, injection{fmt.Sprintf("%s-branch-among-repeated-refs-%d", kw, li), root(sgen.M{kw: mk(badBranch)}, shapeDefs())})
			if li < 2 {
				out = append(out, injection{fmt.Sprintf("%s-branch-among-repeated-refs-%d-in-items", kw, li), root(arr(sgen.M{kw: mk(badBranch)}), shapeDefs())},
					injection{fmt.Sprintf("%s-deep-branch-among-repeated-refs-%d", kw, li), root(sgen.M{kw: mk(obj(obj(b())))}, shapeDefs())})
			}
		}
	}
	if kind == "empty-enum" {
		// the element next to a valid twin that asks for the same Go type name and is generated first
		// ("a-b" sorts before "a_b", both become AB): the name-collision shortcut compares the two nodes
		with := func(base sgen.M) sgen.M {
			o := sgen.DeepCopy(base).(sgen.M)
			for k, v := range b() {
				o[k] = v
			}
			return o
		}
		strT := sgen.M{"type": "string"}
		objT := obj(sgen.M{"type": "string"})
		out = append(out,
			injection{"definition-twin-of-earlier-definition", root(sgen.M{"type": "string"}, sgen.M{"a-b": sgen.DeepCopy(strT), "a_b": with(strT)})},
			injection{"definition-twin-of-earlier-definition-object", root(sgen.M{"$ref": "#/$defs/a_b"}, sgen.M{"a-b": sgen.DeepCopy(objT), "a_b": with(objT)})},
			injection{"property-twin-of-earlier-sibling", sgen.M{"$id": "urn:c18", "type": "object", "properties": sgen.M{"a-b": sgen.DeepCopy(objT), "a_b": with(objT)}}},
			injection{"property-twin-of-definition", sgen.M{"$id": "urn:c18", "type": "object", "properties": sgen.M{"p": with(objT)}, "$defs": sgen.M{"SJsonP": sgen.DeepCopy(objT)}}},
		)
	}
	if kind == "missing-definition" || kind == "missing-file" || kind == "bad-pointer" || kind == "unreachable-url" {
		out = append(out, injection{"allOf-branch-ref", root(sgen.M{"allOf": []any{b(), obj(sgen.M{"type": "string"})}}, nil)},
			injection{"anyOf-branch-ref", root(sgen.M{"anyOf": []any{obj(sgen.M{"type": "string"}), b()}}, nil)})
	}
	return out
}

func goParses(src string) bool {
	_, err := parser.ParseFile(token.NewFileSet(), "x.go", src, 0)
	return err == nil
}

func init() {
	register("C18", func(c *engine.Ctx) {
		c.Rule = "the CLI binary built from /repo, run in an empty sandbox directory: (1) valid schemas with one ungeneratable element (unknown type, missing definition, missing file, bad pointer, empty enum, non-primitive enum, typed integer enum with an object / a string member) injected at every kind of position (property, nested, array item, definition, unreferenced definition, allOf/anyOf branch, branch given by $ref, additionalProperties, and — for enum faults — next to a valid twin that owns the same Go type name and is generated first: definition/definition, property/sibling, property/definition) x output to stdout or to a file x option sets (--only-models, --min-sized-ints, -e, --struct-name-from-title, --tags, combined; one in rotation per case, all in the thorough tier) x routings of the faulty schema (mapped to a package of its own without an output file, alone / after / before a good schema; mapped to a file of its own; only its root type named; one in rotation per case, all in the thorough tier); (2) malformed file contents (truncated, wrongly typed keywords, null in every position, YAML junk, empty, binary); (3) missing files, directories, malformed and unknown flags, no arguments, no package. Judged: exit 0 with complete parsable output, or non-zero exit with a diagnostic on stderr, nothing on stdout, no file created or modified; an ungeneratable element always fails the run; never a panic trace or a hang. In-process: mutated schemas through DoFile/Sources under recover() with a timeout. Distinct = distinct (case kind, position, output mode, outcome)."
		c.Proofs([]string{"GJS.Props.C18"}, []string{
			"GJS.Props.C18.cli_generation_error_writes_nothing", "GJS.Props.C18.cli_flag_error_writes_nothing", "GJS.Props.C18.cli_success_writes_all",
			"GJS.Props.C18.flag_without_equals_rejected", "GJS.Props.C18.flag_with_equals_accepted", "GJS.Props.C18.unknown_type_fails",
			"GJS.Props.C18.null_subschema_is_parse_error", "GJS.Props.C18.parse_is_total",
		})
		factsOf(c, "droppedErrors", "cliOrder")
		bin := buildCLI(c)
		if bin == "" {
			return
		}
		tmp, _ := os.MkdirTemp("", "gjsc18")
		defer os.RemoveAll(tmp)
		fails := 0
		n := 0
		type cliCase struct {
			kind, pos string
			files     map[string]string
			args      []string
			mustFail  bool
			stdin     string
		}
		var cases []cliCase
		for _, kind := range core.SortedKeys(ungeneratable) {
			for _, inj := range injections(ungeneratable[kind], kind) {
				content := string(core.MustJSON(inj.schema))
				cases = append(cases,
					cliCase{kind, inj.name, map[string]string{"s.json": content}, []string{"-p", "x", "s.json"}, true, ""},
					cliCase{kind, inj.name, map[string]string{"s.json": content}, []string{"-p", "x", "-o", "out/gen.go", "s.json"}, true, ""},
				)
				// an ungeneratable element is ungeneratable under every option set: one option per case in rotation
				// (all of them in the thorough tier)
				optSets := [][]string{{"--only-models"}, {"--min-sized-ints"}, {"-e"}, {"--struct-name-from-title"}, {"--only-models", "--min-sized-ints", "-e"}, {"--tags", "json"}}
				for oi, os := range optSets {
					if !c.Thorough() && oi != len(cases)%len(optSets) {
						continue
					}
					args := append(append([]string{"-p", "x", "-o", "out/gen.go"}, os...), "s.json")
					cases = append(cases, cliCase{kind, inj.name + " " + strings.Join(os, " "), map[string]string{"s.json": content}, args, true, ""})
				}
				// … and wherever the schema is routed: mapped to a package of its own without an output file ("its types
				// live elsewhere": nothing of it is written, but it is still an input that cannot be generated), alone or
				// next to a good schema; mapped to a file of its own; only its root type named
				goodMain := `{"$id":"urn:good","type":"object","properties":{"a":{"type":"string"}}}`
				routeSets := []struct {
					name  string
					files map[string]string
					args  []string
				}{
					{"external-alone", map[string]string{"s.json": content}, []string{"-p", "example.com/m/x", "--schema-package", "urn:c18=example.com/m/other", "s.json"}},
					{"external-next-to-good", map[string]string{"good.json": goodMain, "s.json": content}, []string{"-p", "example.com/m/x", "-o", "out/gen.go", "--schema-package", "urn:c18=example.com/m/other", "good.json", "s.json"}},
					{"external-before-good", map[string]string{"good.json": goodMain, "s.json": content}, []string{"-p", "example.com/m/x", "-o", "out/gen.go", "--schema-package", "urn:c18=example.com/m/other", "s.json", "good.json"}},
					{"own-file", map[string]string{"good.json": goodMain, "s.json": content}, []string{"-p", "example.com/m/x", "-o", "out/gen.go", "--schema-package", "urn:c18=example.com/m/other", "--schema-output", "urn:c18=other/bad.go", "good.json", "s.json"}},
					{"root-type-only", map[string]string{"s.json": content}, []string{"-p", "example.com/m/x", "-o", "out/gen.go", "--schema-root-type", "urn:c18=Named", "s.json"}},
				}
				for ri, rs := range routeSets {
					if !c.Thorough() && ri != len(cases)%len(routeSets) {
						continue
					}
					cases = append(cases, cliCase{kind, inj.name + " routed:" + rs.name, rs.files, rs.args, true, ""})
				}
				if c.Thorough() {
					cases = append(cases, cliCase{kind, inj.name, map[string]string{"good.json": `{"$id":"urn:good","type":"object","properties":{"a":{"type":"string"}}}`, "s.json": content},
						[]string{"-p", "x", "--schema-output", "urn:good=out/good.go", "--schema-output", "urn:c18=out/bad.go", "good.json", "s.json"}, true, ""})
				}
			}
		}
		malformedFiles := map[string]string{
			"truncated": `{"type":"object","properties":{"a":{"type":"str`, "empty": ``, "just-null": `null`, "array-root": `[1,2]`, "string-root": `"x"`,
			"type-number": `{"type":5}`, "properties-array": `{"type":"object","properties":[]}`, "required-string": `{"type":"object","required":"a"}`,
			"enum-object": `{"enum":{}}`, "minLength-string": `{"type":"string","minLength":"x"}`, "minimum-string": `{"type":"integer","minimum":"1"}`,
			"null-property": `{"type":"object","properties":{"a":null}}`, "null-definition": `{"type":"object","$defs":{"A":null}}`, "null-branch": `{"type":"object","allOf":[null]}`,
			"null-items": `{"type":"object","properties":{"a":{"type":"array","items":null}}}`, "items-list": `{"type":"object","properties":{"a":{"type":"array","items":[{"type":"string"}]}}}`,
			"binary": "\x00\x01\x02\xff\xfe", "yaml-in-json": "type: object\nproperties:\n  a: {type: string}\n", "trailing-garbage": `{"type":"object"} xyz`,
			"deep-nesting":  strings.Repeat(`{"type":"object","properties":{"a":`, 200) + `{"type":"string"}` + strings.Repeat(`}}`, 200),
			"self-ref-root": `{"type":"object","properties":{"a":{"$ref":"#"}}}`, "ref-cycle-defs": `{"type":"object","properties":{"a":{"$ref":"#/$defs/A"}},"$defs":{"A":{"$ref":"#/$defs/B"},"B":{"$ref":"#/$defs/A"}}}`,
			"no-root-type": `{"$defs":{"A":{"type":"string"}}}`, "type-list-3": `{"type":["string","integer","null"]}`,
		}
		// null where a schema is expected, under every keyword that holds schemas, in both spellings of the definitions
		// keyword, at the root and one level down, in JSON and as an empty YAML value, in the input and in a file
		// reached by $ref
		for _, kw := range []string{"$defs", "definitions", "properties", "patternProperties", "dependentSchemas", "dependencies"} {
			malformedFiles["null-under-"+kw] = `{"type":"object","` + kw + `":{"thing":null}}`
			malformedFiles["null-under-"+kw+"-with-both-def-keywords"] = `{"type":"object","$defs":{"ok":{"type":"string"}},"definitions":{"fine":{"type":"string"}},"` + kw + `":{"thing":null}}`
			malformedFiles["null-under-nested-"+kw] = `{"type":"object","properties":{"p":{"type":"object","` + kw + `":{"thing":null}}}}`
		}
		for _, kw := range []string{"items", "additionalProperties", "not", "additionalItems"} {
			malformedFiles["null-as-"+kw] = `{"type":"object","properties":{"p":{"type":"array","` + kw + `":null}}}`
		}
		for _, kw := range []string{"allOf", "anyOf", "oneOf"} {
			malformedFiles["null-in-"+kw] = `{"type":"object","properties":{"p":{"` + kw + `":[{"type":"object"},null]}}}`
		}
		// `default` values that do not fit the property they sit on (keys that are not declared properties, other-cased
		// keys, a value of another JSON type, on inline objects / referenced definitions / maps / arrays / enums): whatever
		// the tool makes of them, it ends cleanly
		objT := `{"type":"object","properties":{"cpu":{"type":"integer"},"memory_mb":{"type":"integer"}},"additionalProperties":true}`
		for dn, dv := range map[string]string{
			"undeclared-key": `{"cpu":1,"burst":true}`, "other-case-key": `{"Cpu":2}`, "only-undeclared": `{"zzz":{"a":[1]}}`, "empty-object": `{}`,
			"array-for-object": `[1,2]`, "string-for-object": `"x"`, "number-for-object": `1.5`, "nested-undeclared": `{"cpu":{"deep":1}}`, "null": `null`,
		} {
			inline := strings.Replace(objT, `"additionalProperties":true`, `"additionalProperties":true,"default":`+dv, 1)
			malformedFiles["default-"+dn+"-on-inline-object"] = `{"type":"object","properties":{"limits":` + inline + `}}`
			malformedFiles["default-"+dn+"-on-referenced-object"] = `{"type":"object","$defs":{"L":` + objT + `},"properties":{"limits":{"$ref":"#/$defs/L","default":` + dv + `}}}`
			malformedFiles["default-"+dn+"-on-closed-object"] = `{"type":"object","properties":{"limits":{"type":"object","properties":{"cpu":{"type":"integer"}},"default":` + dv + `}}}`
			malformedFiles["default-"+dn+"-on-map"] = `{"type":"object","properties":{"limits":{"type":"object","additionalProperties":{"type":"integer"},"default":` + dv + `}}}`
			malformedFiles["default-"+dn+"-on-array-of-objects"] = `{"type":"object","properties":{"limits":{"type":"array","items":{"type":"object","properties":{"cpu":{"type":"integer"}}},"default":[` + dv + `]}}}`
			malformedFiles["default-"+dn+"-on-string-enum"] = `{"type":"object","properties":{"limits":{"type":"string","enum":["a","b"],"default":` + dv + `}}}`
		}
		// exclusiveMinimum / exclusiveMaximum (and the other numeric keywords the parser keeps as raw values) given as a JSON
		// value of another type: a quoted number, an array, an object, null — on number and integer members, in definitions
		// reached through items, with and without the inclusive bound next to them
		for wn, wv := range map[string]string{"quoted-number": `"1"`, "array": `[1]`, "object": `{"v":1}`, "word": `"yes"`, "empty-string": `""`} {
			for _, kw := range []string{"exclusiveMinimum", "exclusiveMaximum"} {
				malformedFiles["wrongly-typed-"+kw+"-"+wn] = `{"type":"object","properties":{"ratio":{"type":"number","minimum":0,"` + kw + `":` + wv + `}}}`
				malformedFiles["wrongly-typed-"+kw+"-"+wn+"-integer"] = `{"type":"object","properties":{"n":{"type":"integer","maximum":10,"` + kw + `":` + wv + `}},"required":["n"]}`
				malformedFiles["wrongly-typed-"+kw+"-"+wn+"-in-definition"] = `{"type":"object","$defs":{"R":{"type":"number","` + kw + `":` + wv + `}},"properties":{"rs":{"type":"array","items":{"$ref":"#/$defs/R"}}}}`
			}
		}
		for _, name := range core.SortedKeys(malformedFiles) {
			cases = append(cases, cliCase{"malformed-file", name, map[string]string{"s.json": malformedFiles[name]}, []string{"-p", "x", "-o", "gen.go", "s.json"}, false, ""},
				cliCase{"malformed-file", name, map[string]string{"s.json": malformedFiles[name]}, []string{"-p", "x", "s.json"}, false, ""})
		}
		for _, kw := range []string{"$defs", "definitions", "properties"} {
			cases = append(cases,
				cliCase{"malformed-yaml", "empty-value-under-" + kw, map[string]string{"s.yaml": "type: object\n" + kw + ":\n  thing:\n"}, []string{"-p", "x", "-o", "gen.go", "s.yaml"}, false, ""},
				cliCase{"malformed-file", "null-under-" + kw + "-in-referenced-file", map[string]string{"s.json": `{"type":"object","properties":{"r":{"$ref":"t.json#/` + kw + `/ok"}}}`, "t.json": `{"type":"object","` + kw + `":{"ok":{"type":"string"},"thing":null}}`},
					[]string{"-p", "x", "-o", "gen.go", "s.json"}, false, ""})
		}
		yamlJunk := map[string]string{"tabs": "type:\tobject\n\t- x", "unclosed": "type: [object", "anchors": "a: &a\n  b: *a\n", "scalar": "just a string", "dup-keys": "type: object\ntype: string\n"}
		yamlJunk["exclusive-bound-yes"] = "type: object\nproperties:\n  ratio:\n    type: number\n    minimum: 0\n    exclusiveMinimum: yes\n"
		yamlJunk["exclusive-bound-quoted"] = "type: object\nproperties:\n  n:\n    type: integer\n    maximum: 9\n    exclusiveMaximum: \"1\"\n"
		for _, name := range core.SortedKeys(yamlJunk) {
			cases = append(cases, cliCase{"malformed-yaml", name, map[string]string{"s.yaml": yamlJunk[name]}, []string{"-p", "x", "-o", "gen.go", "s.yaml"}, false, ""})
		}
		good := `{"$id":"urn:g","type":"object","properties":{"a":{"type":"string"}}}`
		cases = append(cases,
			cliCase{"arguments", "no-arguments", nil, []string{"-p", "x"}, true, ""},
			cliCase{"arguments", "no-package", map[string]string{"s.json": good}, []string{"s.json"}, true, ""},
			cliCase{"arguments", "missing-file", nil, []string{"-p", "x", "nope.json"}, true, ""},
			cliCase{"arguments", "unreachable-url-as-input", nil, []string{"-p", "x", "http://127.0.0.1:1/s.json"}, true, ""},
			cliCase{"arguments", "unreachable-https-url-as-input", nil, []string{"-p", "x", "-o", "gen.go", "https://127.0.0.1:1/s.json"}, true, ""},
			cliCase{"arguments", "directory-as-file", map[string]string{"d/keep": ""}, []string{"-p", "x", "d"}, true, ""},
			cliCase{"arguments", "flag-without-equals", map[string]string{"s.json": good}, []string{"-p", "x", "--schema-package", "noequals", "s.json"}, true, ""},
			cliCase{"arguments", "output-flag-without-equals", map[string]string{"s.json": good}, []string{"-p", "x", "--schema-output", "noequals", "s.json"}, true, ""},
			cliCase{"arguments", "root-type-flag-without-equals", map[string]string{"s.json": good}, []string{"-p", "x", "--schema-root-type", "noequals", "s.json"}, true, ""},
			cliCase{"arguments", "unknown-flag", map[string]string{"s.json": good}, []string{"-p", "x", "--no-such-flag", "s.json"}, true, ""},
			cliCase{"arguments", "second-file-bad", map[string]string{"s.json": good, "t.json": `{"type":"object","properties":{"a":{"type":"foo"}}}`}, []string{"-p", "x", "-o", "gen.go", "s.json", "t.json"}, true, ""},
			cliCase{"arguments", "second-file-missing", map[string]string{"s.json": good}, []string{"-p", "x", "-o", "gen.go", "s.json", "nope.json"}, true, ""},
			cliCase{"arguments", "same-file-two-packages", map[string]string{"s.json": good, "t.json": `{"$id":"urn:t","type":"object","properties":{"a":{"type":"string"}}}`},
				[]string{"--schema-package", "urn:g=p1", "--schema-package", "urn:t=p2", "--schema-output", "urn:g=o.go", "--schema-output", "urn:t=o.go", "s.json", "t.json"}, true, ""},
			cliCase{"arguments", "stdin-malformed", nil, []string{"-p", "x", "-"}, true, `{"type":`},
			cliCase{"arguments", "stdin-good", nil, []string{"-p", "x", "-"}, false, good},
			cliCase{"arguments", "good-to-file", map[string]string{"s.json": good}, []string{"-p", "x", "-o", "deep/dir/gen.go", "s.json"}, false, ""},
		)
		for ci, cc := range cases {
			wd := filepath.Join(tmp, fmt.Sprint(ci))
			_ = os.MkdirAll(wd, 0o755)
			for name, data := range cc.files {
				fn := filepath.Join(wd, name)
				_ = os.MkdirAll(filepath.Dir(fn), 0o755)
				_ = os.WriteFile(fn, []byte(data), 0o644)
			}
			before := listDir(wd)
			res := runCLI(bin, wd, cc.stdin, cc.args...)
			n++
			outMode := "stdout"
			for _, a := range cc.args {
				if a == "-o" || strings.HasPrefix(a, "--schema-output") {
					outMode = "file"
				}
			}
			outcome := "exit0"
			if res.Exit != 0 {
				outcome = "nonzero"
			}
			c.Eval(fmt.Sprintf("%s|%s|%s|%s", cc.kind, cc.pos, outMode, outcome))
			c.Count("cli-outcomes", cc.kind+"/"+outcome)
			replay := M{"kind": "cli", "case": cc.kind, "position": cc.pos, "files": cc.files, "args": cc.args, "stdin": cc.stdin, "exit": res.Exit, "stdout": clip(res.Stdout, 600), "stderr": clip(res.Stderr, 600)}
			bad := ""
			switch {
			case res.Timeout:
				bad = "the tool hangs (30 s)"
			case strings.Contains(res.Stderr, "goroutine ") && strings.Contains(res.Stderr, "panic"):
				bad = "the tool panics: " + clip(res.Stderr, 200)
			case res.Exit == 0:
				if cc.mustFail {
					bad = "the run reports success although it cannot be generated (" + cc.kind + " at " + cc.pos + ")"
				}
				// complete output
				if res.Stdout != "" && !goParses(res.Stdout) {
					bad = "exit 0 but stdout is not complete Go"
				}
				for name, data := range res.Files {
					if _, was := before[name]; !was && strings.HasSuffix(name, ".go") && !goParses(data) {
						bad = "exit 0 but " + name + " is not complete Go"
					}
				}
			default:
				if res.Stdout != "" {
					bad = "non-zero exit but stdout is not empty"
				}
				if strings.TrimSpace(res.Stderr) == "" {
					bad = "non-zero exit without a diagnostic on stderr"
				}
				for name, data := range res.Files {
					if old, was := before[name]; !was || old != data {
						bad = "non-zero exit but the file " + name + " was created or modified"
					}
				}
			}
			if bad != "" {
				fails++
				if fails <= 3 {
					c.Fail("oracle", bad, replay, false)
				}
			}
			if len(c.Samples) < 6 && ci%17 == 0 {
				c.Sample(replay)
			}
		}
		c.Programs += n
		// ---- in-process fuzz: mutated schemas, recover() + timeout ----
		dir := filepath.Join(tmp, "fuzz")
		_ = os.MkdirAll(dir, 0o755)
		panics := 0
		mutN := c.N(1500, 30000)
		for i := 0; i < mutN; i++ {
			g := sgen.New(c.R, sgen.AllOpts())
			root := g.Root("urn:f")
			data := core.MustJSON(root)
			// byte-level and token-level mutations
			for k := 0; k < c.R.Range(1, 3); k++ {
				switch c.R.Intn(5) {
				case 0:
					if len(data) > 2 {
						p := c.R.Intn(len(data))
						data = append(data[:p], data[p+1:]...)
					}
				case 1:
					p := c.R.Intn(len(data))
					data = append(data[:p], append([]byte(core.Pick(c.R, []string{"null", "[]", "{}", "\"x\"", "1", ",", ":", "true"})), data[p:]...)...)
				case 2:
					s := string(data)
					for _, kw := range []string{`"string"`, `"object"`, `"array"`, `"integer"`} {
						if c.R.P(0.3) {
							s = strings.Replace(s, kw, core.Pick(c.R, []string{`null`, `"foo"`, `5`, `["string","integer","null"]`, `[]`, `""`}), 1)
						}
					}
					data = []byte(s)
				case 3:
					s := string(data)
					s = strings.Replace(s, `{"type"`, core.Pick(c.R, []string{`null,{"type"`, `{"$ref":"#","type"`, `{"enum":[],"type"`, `{"allOf":[],"type"`, `{"anyOf":[],"type"`}), 1)
					data = []byte(s)
				case 4:
					s := string(data)
					s = strings.Replace(s, `"properties":{`, core.Pick(c.R, []string{`"properties":{"":null,`, `"properties":{"x":{"$ref":"#/$defs/"},`, `"properties":{"x":{"$ref":"#/"},`, `"properties":{"y":{"type":"array"},`}), 1)
					data = []byte(s)
				}
			}
			fn := filepath.Join(dir, "s.json")
			_ = os.WriteFile(fn, data, 0o644)
			cfg := core.DefaultCfg()
			res := core.RunRealFiles(cfg.GeneratorConfig("", nil), []string{fn}, 10*time.Second)
			outcome := "ok"
			switch {
			case res.Timeout:
				outcome = "timeout"
			case res.Panic != "":
				outcome = "panic"
			case res.ErrKind != "":
				outcome = "error:" + res.ErrKind
			}
			c.Eval("fuzz|" + outcome + "|" + fmt.Sprint(len(data)/50))
			c.Count("fuzz-outcomes", outcome)
			if res.Timeout || res.Panic != "" {
				panics++
				fails++
				if panics <= 3 {
					c.Fail("panic", "the generator "+outcome+"s on a malformed schema: "+clip(res.Panic, 200), M{"kind": "generator", "schema_text": string(data), "outcome": outcome}, false)
				}
			}
		}
		c.FactsVerdict(fails > 0)
		knownProgramFindings(c)
	})
}

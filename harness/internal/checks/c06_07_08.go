package checks

import (
	"fmt"
	"regexp"
	"strings"

	"verifharness/internal/core"
	"verifharness/internal/engine"
	"verifharness/internal/sgen"
)

func isASCII(s string) bool {
	for _, r := range s {
		if r > 127 {
			return false
		}
	}
	return true
}

// stringsOfLen builds strings with exactly n characters: ASCII, 2-, 3- and 4-byte characters.
func stringsOfLen(n int) []string {
	if n < 0 {
		return nil
	}
	return []string{strings.Repeat("a", n), strings.Repeat("é", n), strings.Repeat("日", n), strings.Repeat("𝄞", n)}
}

func docHasNonASCII(doc string) bool { return !isASCII(doc) }

func init() {
	register("C06", func(c *engine.Ctx) {
		c.Rule = "one string field per program: {minLength,maxLength,pattern} presence x position (required/optional/nullable/definition/nested/optional-with-a-valid-default) x strings of length limit-1, limit, limit+1 in ASCII and in 2-, 3-, 4-byte characters x matching / non-matching text for each pattern form; plus absent and null; plus pattern fidelity: 47 patterns — characters that are awkward in generated source (literal line feed, tab, CR, quotes, backtick, backslash escapes and escaped backslashes, %, non-ASCII) and 20 patterns that merely look trivial (^.*$, .*, .+, ^$, (?s)^.*$, …) — x 39 documents (incl. line feeds at the start, in the middle and at the end) x 3 positions, judged by regexp.MatchString on the schema's own pattern. The reference verdict is judged on ASCII documents (scope F06; byte counting is known finding K1), model = implementation on all. Distinct = distinct (labels, reference verdict, real verdict, document shape)."
		c.Proofs([]string{"GJS.Props.C06"}, []string{
			"GJS.Props.C06.ascii_bytes_eq_length", "GJS.Props.C06.string_check_exact_ascii", "GJS.Props.C06.string_check_exact_pattern_only",
			"GJS.Props.C06.absent_or_null_unchecked", "GJS.Props.C06.present_checked", "GJS.Props.C06.KF_bytes_counterexample", "GJS.Props.C06.carriage_return_pattern_exact",
		})
		var pcs []*core.PCase
		patterns := []string{"", "^a", "z$", "^abc$", "b", "^[a-z]*$", "^[0-9]+$"}
		patDocs := map[string][]string{
			"^a": {"a", "ab", "ba", "", "A"}, "z$": {"z", "az", "za", ""}, "^abc$": {"abc", "abcd", "xabc", "ab"},
			"b": {"b", "abc", "ac", ""}, "^[a-z]*$": {"", "abc", "aBc", "a1"}, "^[0-9]+$": {"", "0", "123", "12a"},
		}
		for _, pos := range AllPositions {
			for _, mn := range []int{0, 1, 3} {
				for _, mx := range []int{0, 3, 5} {
					if mn > mx && mx != 0 {
						continue
					}
					for _, pat := range patterns {
						if mn == 0 && mx == 0 && pat == "" {
							continue
						}
						if !c.Thorough() && pat != "" && (mn != 0 || mx != 0) && c.R.P(0.6) {
							continue
						}
						prop := M{"type": "string"}
						if mn != 0 {
							prop["minLength"] = mn
						}
						if mx != 0 {
							prop["maxLength"] = mx
						}
						if pat != "" {
							prop["pattern"] = pat
						}
						if pos == PosDefault {
							// an optional string with a default that satisfies its own constraints: absent must be accepted
							// (and become the default), never checked as the empty string
							def := ""
							for _, cand := range []string{"abc", "a", "abcd", "123", "z", "az", "0", "abz", "b"} {
								if sgen.LocalValid(prop, cand) {
									def = cand
									break
								}
							}
							if def == "" {
								continue
							}
							prop["default"] = def
						}
						schema, mk := fieldProgram(pos, prop)
						var docs []any
						seen := map[string]bool{}
						add := func(s string) {
							if !seen[s] {
								seen[s] = true
								docs = append(docs, mk(s, false))
							}
						}
						for _, l := range []int{mn - 1, mn, mn + 1, mx - 1, mx, mx + 1} {
							for _, s := range stringsOfLen(l) {
								add(s)
							}
						}
						for _, s := range patDocs[pat] {
							add(s)
						}
						if pos == PosOptional || pos == PosNullable || pos == PosDefault {
							docs = append(docs, mk(nil, true))
						}
						if pos == PosNullable {
							docs = append(docs, mk(nil, false))
						}
						pcs = append(pcs, baseCase("c06-string", schema, docs, string(pos), fmt.Sprintf("min=%v,max=%v,pat=%v", mn != 0, mx != 0, pat != "")))
					}
				}
			}
		}
		// pattern fidelity: the emitted code must apply EXACTLY the schema's pattern (Go RE2 semantics).  Patterns and
		// documents with characters that are awkward inside generated source text: a literal line feed, tab, carriage
		// return, quotes, backslash escapes, %, non-ASCII.  The expectation is regexp.MatchString on the schema's
		// pattern itself — independent of the model, whose closed pattern family does not contain these.
		hostilePatterns := []string{"^[^\n]*$", "^key\nvalue$", "a\nb", "\t", "^[^\t]+$", "\r\n", "^\"q\"$", "'", "^a\\.b$", "\\d+%", "^%s$", "^[äöü]+$", "日本", "^\\s*$", "^a\n\tb$", "a`b", "^`+$", "`\r`",
			// an ESCAPED backslash followed by something that would be an escape had the backslash been alone (\u0041, \x41,
			// \d, \n), and the hexadecimal escapes RE2 does have
			"^\\\\u0041$", "\\\\x41", "^\\\\d+$", "^\\\\n$", "^\\\\t$", "\\\\\\\\", "^\\x41$", "^\\x{41}$", "^\\x{1F600}$",
			// patterns that LOOK as if they constrained nothing (or everything): `.` does not match a line feed, `$` matches only
			// at the end of the text, `^$` admits only the empty string
			"^.*$", ".*", "^.*", ".*$", ".+", "^.+$", "^.?$", "(?s)^.*$", "^(.*)$", "^[\\s\\S]*$", ".", "^", "$", "^$", "()", ".{0,}", "^.{0,}$", "^.{1,}$", "^(?:.*)$", "^.*?$"}
		hostileDocs := []string{"\\u0041", "A", "\\x{0041}", "\\x41", "\\d", "\\ddd", "\\n", "\\t", "\\\\", "\\", "7", "😀", "", "a", "ab", "a\nb", "a\n\tb", "col1\tcol2", "key\nvalue", "key\n\tvalue", "\r\n", "\"q\"", "it's", "a.b", "axb", "12%", "%s", "äö", "日本語", " \t ", "x\ty\nz", "a`b", "``", "`\r`", "a\r\nb", "\n", "x\n", "\nx", "two\nlines"}
		var fidelity []*core.PCase
		for _, pat := range hostilePatterns {
			for _, pos := range []Position{PosRequired, PosOptional, PosDef} {
				schema, mk := fieldProgram(pos, M{"type": "string", "pattern": pat})
				var docs []any
				for _, d := range hostileDocs {
					docs = append(docs, mk(d, false))
				}
				fidelity = append(fidelity, baseCase("c06-pattern-fidelity", schema, docs, pat, string(pos)))
			}
		}
		fres := runCases(c, fidelity)
		fidFails := 0
		for _, r := range fres {
			pat := r.Case.Labels[0]
			re, err := regexp.Compile(pat)
			if err != nil {
				continue
			}
			if r.RunsJ == nil {
				if r.Real.Unformatted || r.Real.ParseErr != "" {
					c.Count("c06", "pattern not expressible in the emitted text (K5 class, skipped)")
					continue
				}
				fidFails++
				c.Fail("oracle", fmt.Sprintf("pattern %q: the program does not generate/compile: %s", pat, r.Real.ErrMsg+clip(r.CompileErr, 200)), replayOf(r, -1, nil), false)
				continue
			}
			for i, rr := range r.RunsJ {
				want := "reject"
				if re.MatchString(hostileDocs[i]) {
					want = "ok"
				}
				c.Eval(fmt.Sprintf("pattern-fidelity|%s|%s|%d|%s", pat, r.Case.Labels[1], i, rr.Kind))
				if rr.Kind != want {
					fidFails++
					if fidFails <= 3 {
						c.Fail("oracle", fmt.Sprintf("pattern %q on %q: the generated code says %s, the pattern itself (regexp.MatchString) says %s", pat, hostileDocs[i], rr.Kind, want), replayOf(r, i, nil), false)
					}
				}
			}
		}
		for _, pc := range nearDupCases(c, "c06-near-duplicates") {
			if strings.Contains(pc.Labels[0], "Length") || strings.Contains(pc.Labels[0], "attern") {
				pc.Labels = []string{"near-duplicate", pc.Labels[0]}
				pcs = append(pcs, pc)
			}
		}
		res := runCases(c, pcs)
		fails := verdictOracle(c, res, "string length / pattern", func(r *core.PResult, i int) bool {
			// byte counting (K1): only ASCII documents are in scope when a length keyword is present
			return docHasNonASCII(r.DocJSON[i]) && (strings.Contains(string(r.SchemaJSON), "Length"))
		})
		fails += fidFails
		for _, r := range res {
			if len(c.Samples) < 6 && len(r.DocJSON) > 1 {
				c.Sample(M{"schema": string(r.SchemaJSON), "doc": r.DocJSON[1]})
			}
		}
		breaks(c, res, nil, fails > 0)
		knownProgramFindings(c)
	})

	register("C07", func(c *engine.Ctx) {
		c.Rule = "array-typed field, nesting depth 1..3, minItems/maxItems at each level independently in {none,min,max,both}, lengths min-1,min,max,max+1 at each level, positions required/optional/nullable/optional-with-a-valid-default; plus absent and null; plus limits under composition: a definition with ONE limit on an array property used as an earlier allOf / anyOf branch (by $ref or inline) while a later branch puts the OTHER limit on the same property — decoding 0..5 elements into the definition's own type (or the anyOf branch type) must apply its own limit only, and the composed position what the reference says. The reference verdict is judged where limits sit on depth-1 arrays or are the same at every level (scope F07; the outer-limits-everywhere behaviour is known finding K2); model = implementation on all. Distinct = distinct (labels, verdicts, document shape)."
		c.Proofs([]string{"GJS.Props.C07"}, []string{
			"GJS.Props.C07.depth1_exact", "GJS.Props.C07.absent_or_null_unchecked", "GJS.Props.C07.nested_unfold",
			"GJS.Props.C07.nested2_uniform", "GJS.Props.C07.KF_nested_limits_counterexample",
		})
		type lim struct{ mn, mx int }
		lims := []lim{{0, 0}, {1, 0}, {0, 2}, {1, 2}, {2, 3}}
		var pcs []*core.PCase
		mkArr := func(n int, inner func() any) []any {
			out := []any{}
			for i := 0; i < n; i++ {
				out = append(out, inner())
			}
			return out
		}
		// CONTRADICTORY limits (maxItems below minItems — a typo the tool must not repair on its own): both stay in force, so
		// every non-null array is rejected, whatever its length; flat and one level down
		for _, lim := range [][2]int{{3, 2}, {2, 1}, {5, 1}, {4, 3}} {
			for _, pos := range []Position{PosRequired, PosOptional} {
				for _, nested := range []bool{false, true} {
					prop := M{"type": "array", "items": M{"type": "integer"}, "minItems": lim[0], "maxItems": lim[1]}
					elem := func(k int) any {
						xs := []any{}
						for i := 0; i < k; i++ {
							xs = append(xs, i)
						}
						return xs
					}
					if nested {
						prop = M{"type": "array", "items": M{"type": "array", "items": M{"type": "integer"}}, "minItems": lim[0], "maxItems": lim[1]}
						elem = func(k int) any {
							xs := []any{}
							for i := 0; i < k; i++ {
								xs = append(xs, []any{i, i + 1})
							}
							return xs
						}
					}
					schema, mk := fieldProgram(pos, prop)
					var docs []any
					for k := 0; k <= 6; k++ {
						docs = append(docs, mk(elem(k), false))
					}
					pcs = append(pcs, baseCase("c07-contradictory-limits", schema, docs, fmt.Sprintf("min=%d max=%d", lim[0], lim[1]), string(pos), fmt.Sprintf("nested=%v", nested)))
				}
			}
		}
		for _, pos := range []Position{PosRequired, PosOptional, PosNullable, PosDefault} {
			for depth := 1; depth <= 3; depth++ {
				combos := 1
				for i := 0; i < depth; i++ {
					combos *= len(lims)
				}
				for code := 0; code < combos; code++ {
					if depth == 3 && !c.Thorough() && code%7 != 0 {
						continue
					}
					ls := make([]lim, depth)
					cc := code
					allNone := true
					for i := range ls {
						ls[i] = lims[cc%len(lims)]
						cc /= len(lims)
						if ls[i] != (lim{0, 0}) {
							allNone = false
						}
					}
					if allNone {
						continue
					}
					var prop M = M{"type": "integer"}
					for i := depth - 1; i >= 0; i-- {
						a := M{"type": "array", "items": prop}
						if ls[i].mn != 0 {
							a["minItems"] = ls[i].mn
						}
						if ls[i].mx != 0 {
							a["maxItems"] = ls[i].mx
						}
						prop = a
					}
					// documents: at each level one length off, the others at a valid length for THEIR OWN limits
					okLen := func(l lim) int {
						if l.mn != 0 {
							return l.mn
						}
						return 1
					}
					var docs []any
					build := func(lens []int) any {
						var rec func(level int) any
						rec = func(level int) any {
							if level == depth {
								return 1
							}
							return mkArr(lens[level], func() any { return rec(level + 1) })
						}
						return rec(0)
					}
					base := make([]int, depth)
					for i := range base {
						base[i] = okLen(ls[i])
					}
					if pos == PosDefault {
						// an optional array with a default that satisfies its own limits: a present array is still checked
						prop["default"] = build(base)
					}
					schema, mk := fieldProgram(pos, prop)
					var raw []any // the field's values, for the nullable-inner-array variant below
					docs = append(docs, mk(build(base), false))
					raw = append(raw, build(base))
					for lv := 0; lv < depth; lv++ {
						for _, n := range []int{ls[lv].mn - 1, ls[lv].mn, ls[lv].mx, ls[lv].mx + 1, 0, 4} {
							if n < 0 {
								continue
							}
							lens := append([]int(nil), base...)
							lens[lv] = n
							docs = append(docs, mk(build(lens), false))
							raw = append(raw, build(lens))
						}
					}
					if pos != PosRequired {
						docs = append(docs, mk(nil, true))
					}
					if pos == PosNullable {
						docs = append(docs, mk(nil, false))
					}
					uniform := true
					for i := 1; i < depth; i++ {
						if ls[i] != ls[0] {
							uniform = false
						}
					}
					scope := "in-scope"
					if depth > 1 && !uniform {
						scope = "K2-region"
					}
					pcs = append(pcs, baseCase("c07-array", schema, docs, string(pos), fmt.Sprintf("depth=%d", depth), scope))
					if depth >= 2 && uniform && (pos == PosRequired || pos == PosOptional) {
						// the same limits with the INNER arrays nullable (type [array, null], either order): an inner array that is
						// there is still counted at its own level
						propN := sgen.DeepCopy(prop).(M)
						for lvl, cur := 1, propN["items"].(M); lvl < depth; lvl++ {
							if lvl%2 == 1 {
								cur["type"] = []any{"array", "null"}
							} else {
								cur["type"] = []any{"null", "array"}
							}
							if next, ok := cur["items"].(M); ok {
								cur = next
							}
						}
						delete(propN, "default")
						schemaN, mkN := fieldProgram(pos, propN)
						var docsN []any
						for _, v := range raw {
							docsN = append(docsN, mkN(v, false))
						}
						pcs = append(pcs, baseCase("c07-array", schemaN, docsN, string(pos), fmt.Sprintf("depth=%d", depth), "in-scope", "nullable-inner-arrays"))
					}
				}
			}
		}
		// limits on an array property whose object also takes part in a composition: the definition Base puts ONE
		// limit on `tags`, a later allOf / anyOf branch puts the OTHER limit on the same property.  Decoding into
		// Base itself (or the anyOf branch type) must apply Base's own limit only; the composed position applies
		// what the reference says.
		type compCase struct {
			mn, mx int // the decoded type's own limits
		}
		var compMeta []compCase
		var compCases []*core.PCase
		strs := func(n int) []any {
			out := []any{}
			for i := 0; i < n; i++ {
				out = append(out, "s")
			}
			return out
		}
		for _, kw := range []string{"allOf", "anyOf"} {
			for _, baseHasMin := range []bool{true, false} {
				for _, viaRef := range []bool{true, false} {
					tagsA := M{"type": "array", "items": M{"type": "string"}}
					tagsB := M{"type": "array", "items": M{"type": "string"}}
					own := compCase{}
					if baseHasMin {
						tagsA["minItems"], tagsB["maxItems"] = 2, 3
						own.mn = 2
					} else {
						tagsA["maxItems"], tagsB["minItems"] = 3, 2
						own.mx = 3
					}
					base := M{"type": "object", "properties": M{"tags": tagsA}, "required": []any{"tags"}}
					later := M{"type": "object", "properties": M{"tags": tagsB}, "required": []any{"tags"}}
					var first any = sgen.DeepCopy(base)
					schema := M{"type": "object", "properties": M{"limited": nil}}
					target := "RootLimited_0"
					if viaRef {
						first = M{"$ref": "#/$defs/Base"}
						schema["$defs"] = M{"Base": base}
						schema["properties"].(M)["base"] = M{"$ref": "#/$defs/Base"}
						target = "Base"
					} else if kw == "allOf" {
						continue // an inline allOf branch has no type of its own to decode into
					}
					schema["properties"].(M)["limited"] = M{kw: []any{first, later}}
					var docs []any
					for n := 0; n <= 5; n++ {
						docs = append(docs, M{"tags": strs(n)})
					}
					pc := baseCase("c07-composed-own-type", schema, docs, kw, fmt.Sprintf("baseHasMin=%v", baseHasMin), fmt.Sprintf("ref=%v", viaRef))
					pc.DecodeType = target
					compCases = append(compCases, pc)
					compMeta = append(compMeta, own)
					// the composed position itself, judged by the reference
					var rdocs []any
					for n := 0; n <= 5; n++ {
						rdocs = append(rdocs, M{"limited": M{"tags": strs(n)}})
					}
					pcs = append(pcs, baseCase("c07-composed", sgen.DeepCopy(schema).(M), rdocs, string(PosOptional), "depth=1", "in-scope"))
				}
			}
		}
		fails := 0
		cres := runCases(c, compCases)
		for i, r := range cres {
			if r.RunsJ == nil {
				fails++
				c.Fail("oracle", "array limits under composition: the program does not generate/compile or lacks the type "+r.Case.DecodeType+": "+r.Real.ErrMsg+r.CompileErr, replayOf(r, -1, nil), false)
				continue
			}
			for n, rr := range r.RunsJ {
				want := "ok"
				if (compMeta[i].mn != 0 && n < compMeta[i].mn) || (compMeta[i].mx != 0 && n > compMeta[i].mx) {
					want = "reject"
				}
				c.Eval(fmt.Sprintf("composed-own|%s|n=%d|%s", strings.Join(r.Case.Labels, ","), n, rr.Kind))
				if rr.Kind != want {
					fails++
					if fails <= 3 {
						c.Fail("oracle", fmt.Sprintf("decoding %d elements into %s (own limits min=%d max=%d; the other limit belongs to a later %s branch): %s, expected %s (%s)", n, r.Case.DecodeType, compMeta[i].mn, compMeta[i].mx, r.Case.Labels[0], rr.Kind, want, clip(rr.Msg, 120)),
							replayOf(r, n, nil), false)
					}
				}
			}
		}
		for _, pc := range nearDupCases(c, "c07-near-duplicates") {
			if strings.Contains(pc.Labels[0], "Items") || strings.Contains(pc.Labels[0], "items") {
				pc.Labels = []string{string(PosOptional), "depth=1", "in-scope", pc.Labels[0]}
				pcs = append(pcs, pc)
			}
		}
		// the same limits through the YAML methods (--extra-imports), under the default tag list and under lists
		// without `yaml` (names that are their own lower-cased field names, so that yaml.v3 still binds them: K37)
		var ypcs []*core.PCase
		for _, tags := range [][]string{nil, {"json"}, {"json", "mapstructure"}, {"yaml"}} {
			schema := sgen.M{"type": "object", "required": []any{"codes"}, "properties": sgen.M{
				"tags":  sgen.M{"type": "array", "items": sgen.M{"type": "string"}, "minItems": 1, "maxItems": 3},
				"codes": sgen.M{"type": "array", "items": sgen.M{"type": "integer"}, "minItems": 1},
				"opt":   sgen.M{"type": []any{"array", "null"}, "items": sgen.M{"type": "integer"}, "maxItems": 2},
				"grid":  sgen.M{"type": "array", "maxItems": 2, "items": sgen.M{"type": "array", "items": sgen.M{"type": "integer"}, "maxItems": 2}}}}
			var docs []any
			for n := 0; n <= 4; n++ {
				ts, is := []any{}, []any{}
				for k := 0; k < n; k++ {
					ts = append(ts, fmt.Sprintf("t%d", k))
					is = append(is, k)
				}
				docs = append(docs, M{"codes": []any{1}, "tags": ts}, M{"codes": is}, M{"codes": []any{1}, "opt": is}, M{"codes": []any{1}, "grid": []any{is}}, M{"codes": []any{1}, "grid": []any{[]any{1}, []any{2}, is}[:min(n, 3)]})
			}
			pc := baseCase("c07-yaml", schema, docs, string(PosOptional), "depth<=2", "in-scope", "tags="+strings.Join(tags, ","))
			pc.Cfg.ExtraImports = true
			if tags != nil {
				pc.Cfg.Tags = tags
			}
			ypcs = append(ypcs, pc)
		}
		// nullable arrays (type [array,null], also below a nullable outer array), REQUIRED or optional, with limits: an explicit
		// null is valid and no length is asked of it; both wires
		for _, req := range []bool{true, false} {
			for _, nested := range []bool{false, true} {
				var node sgen.M
				if nested {
					node = sgen.M{"type": []any{"array", "null"}, "minItems": 2, "maxItems": 3, "items": sgen.M{"type": "array", "items": sgen.M{"type": "integer"}, "minItems": 2, "maxItems": 3}}
				} else {
					node = sgen.M{"type": []any{"array", "null"}, "minItems": 2, "maxItems": 3, "items": sgen.M{"type": "integer"}}
				}
				schema := sgen.M{"type": "object", "properties": sgen.M{"v": node, "k": sgen.M{"type": "string"}}}
				if req {
					schema["required"] = []any{"v"}
				}
				el := func(n int) []any {
					var xs []any
					for k := 0; k < n; k++ {
						if nested {
							xs = append(xs, []any{k, k + 1})
						} else {
							xs = append(xs, k)
						}
					}
					if xs == nil {
						xs = []any{}
					}
					return xs
				}
				docs := []any{M{"v": nil}, M{"v": nil, "k": "x"}, M{"v": el(0)}, M{"v": el(1)}, M{"v": el(2)}, M{"v": el(3)}, M{"v": el(4)}, M{"k": "x"}}
				pc := baseCase("c07-yaml", schema, docs, string(PosOptional), "nullable", "in-scope", fmt.Sprintf("nullable required=%v nested=%v", req, nested))
				pc.Cfg.ExtraImports = true
				ypcs = append(ypcs, pc)
			}
		}
		res := runCases(c, append(pcs, ypcs...))
		fails += verdictOracle(c, res, "array length limits", func(r *core.PResult, i int) bool {
			return r.Case.Labels[2] == "K2-region"
		})
		for _, r := range res {
			if r.Case.Stream != "c07-yaml" || r.RunsY == nil {
				continue
			}
			for i := range r.DocJSON {
				if i >= len(r.ModelRuns) {
					continue
				}
				spec, y := r.ModelRuns[i].Spec, r.RunsY[i].Kind
				c.Eval("c07-yaml|" + r.Case.Labels[3] + "|" + spec + "|" + y + "|" + classOfDoc(r.DocJSON[i]))
				c.Count("yaml verdict", r.Case.Labels[3]+": "+spec+"/"+y)
				if (spec == "valid") != (y == "ok") {
					fails++
					if fails <= 3 {
						c.Fail("oracle", fmt.Sprintf("array length limits through UnmarshalYAML (%s): reference says %s, generated code says %s (%s)", r.Case.Labels[3], spec, y, clip(r.RunsY[i].Msg, 160)), replayOf(r, i, M{"wire": "yaml"}), false)
					}
				}
			}
		}
		res = append(res, cres...)
		for _, r := range res {
			if len(c.Samples) < 6 && len(r.DocJSON) > 1 {
				c.Sample(M{"schema": string(r.SchemaJSON), "doc": r.DocJSON[1], "labels": r.Case.Labels})
			}
		}
		breaks(c, res, nil, fails > 0)
		knownProgramFindings(c)
	})

	register("C08", func(c *engine.Ctx) {
		c.Rule = "enum lists of every shape (strings, untyped ints, numbers, booleans, mixed, with null; typed string/integer/number/boolean; members of different JSON types that print alike — true/\"true\", 1/\"1\", null/\"<nil>\", 1.5/\"1.5\" — and repeated members; members containing %, quotes, backslashes, line feeds, non-ASCII, template syntax; typed enums that also state bounds or lengths, incl. bounds beyond 32 bits) used inline (required/optional), as array items, via $ref (typed definitions) and with a default, x every member and non-members of every JSON type. Judged: verdict = reference; accepted values marshal back unchanged; string enums expose one constant per value with that value and distinct names. Distinct = distinct (shape, position, verdicts, document shape)."
		c.Proofs([]string{"GJS.Props.C08"}, []string{
			"GJS.Props.C08.string_enum_membership", "GJS.Props.C08.number_enum_membership", "GJS.Props.C08.bool_enum_membership",
			"GJS.Props.C08.mixed_enum_membership_json", "GJS.Props.C08.wrapped_marshal_roundtrip", "GJS.Props.C08.plain_marshal_roundtrip",
			"GJS.Props.C08.KF_integer_fraction_coerces", "GJS.Props.C08.string_enum_method_exact", "GJS.Props.C08.string_enum_method_value", "GJS.Props.C08.string_enum_method_rejects_other_types",
		})
		shapes := map[string]M{
			"strings":       {"enum": []any{"red", "green", "x y"}},
			"ints":          {"enum": []any{1, 2, 10, -1}},
			"numbers":       {"enum": []any{1.5, 2, 3.25}},
			"bools":         {"enum": []any{true}},
			"mixed":         {"enum": []any{1, "a", true, 2.5}},
			"mixed-null":    {"enum": []any{"a", nil, 3}},
			"typed-string":  {"type": "string", "enum": []any{"red", "green", "blue"}},
			"typed-integer": {"type": "integer", "enum": []any{1, 2, 3, 10}},
			"typed-number":  {"type": "number", "enum": []any{1.5, 2, 3.25}},
			"typed-boolean": {"type": "boolean", "enum": []any{false}},
			"one-string":    {"enum": []any{"only"}},
			"long-strings":  {"type": "string", "enum": []any{"a", "b", "c", "d", "e", "f", "g", "h", "i", "j", "k", "l"}},
			// members of different JSON types that PRINT alike, and repeated members
			"text-twins-bool":  {"enum": []any{true, false, "true", "false"}},
			"text-twins-int":   {"enum": []any{1, 2, "1", "auto"}},
			"text-twins-null":  {"enum": []any{nil, "<nil>", "null"}},
			"text-twins-float": {"enum": []any{1.5, "1.5", 2, "2"}},
			"text-twins-rev":   {"enum": []any{"true", "1", true, 1}},
			"repeated-strings": {"type": "string", "enum": []any{"x", "y", "x"}},
			"repeated-ints":    {"enum": []any{1, 2, 1}},
			// members with text that is awkward in generated source or in a format string
			"percent-strings": {"type": "string", "enum": []any{"50%off", "10%off", "none", "100%", "%s"}},
			"percent-mixed":   {"enum": []any{"5% flat", 5, nil}},
			"hostile-strings": {"type": "string", "enum": []any{"a\"b", "back\\slash", "new\nline", "tab\there", "日本", "it's", "{{x}}", "$1"}},
			// string members that differ ONLY in characters of another script: decimal digits of other scripts (full-width,
			// Persian, Devanagari — legal in Go identifiers), letters of several scripts: one constant per member, all distinct
			// (members that collide after capitalisation, like ǆ / ǅ, are the listed finding K5-enum-constant-collision)
			"digits-fullwidth":  {"type": "string", "enum": []any{"レベル１", "レベル２", "レベル３"}},
			"digits-persian":    {"enum": []any{"مرحله۱", "مرحله۲"}},
			"digits-devanagari": {"type": "string", "enum": []any{"स्तर१", "स्तर२", "स्तर१०"}},
			"digits-mixed":      {"type": "string", "enum": []any{"v1", "v１", "v۱", "v2"}},
			"letters-scripts":   {"type": "string", "enum": []any{"άλφα", "βήτα", "альфа", "бета", "ალფა"}},
			// typed integer enums that also state bounds (the carrier type is chosen from type AND bounds)
			"typed-integer-bounded":    {"type": "integer", "enum": []any{1, 2, 3}, "minimum": 0, "maximum": 10},
			"typed-integer-big-max":    {"type": "integer", "enum": []any{1073741824, 4294967296, 8589934592}, "maximum": 8589934592},
			"typed-integer-big-min":    {"type": "integer", "enum": []any{-8589934592, 0, 5}, "minimum": -8589934592},
			"typed-integer-big-xmax":   {"type": "integer", "enum": []any{3, 4294967296}, "exclusiveMaximum": 4294967297},
			"typed-number-bounded":     {"type": "number", "enum": []any{1.5, 2}, "minimum": 1, "maximum": 2},
			"typed-string-constrained": {"type": "string", "enum": []any{"red", "green"}, "minLength": 3},
			// MANY members (tests and examples have a handful): membership is decided the same way for 3 and for 13
			"large-mixed":         {"enum": []any{"off", "fatal", "error", "warn", "info", "debug", "trace", 0, 1, 2, 3, true, nil}},
			"large-mixed-no-null": {"enum": []any{"red", "green", "blue", "a", "b", "l", "m", 1, 2, 3, 10, 2.5, false}},
			"large-strings":       {"type": "string", "enum": []any{"red", "green", "blue", "a", "b", "l", "m", "x", "y", "only", "new", "none"}},
			"large-integers":      {"type": "integer", "enum": []any{0, 1, 2, 3, 4, 5, 6, 7, 8, 9, 10, 11, 12}},
			"large-numbers":       {"type": "number", "enum": []any{0.5, 1.5, 2.5, 3.25, 4.5, 5.5, 6.5, 7.5, 8.5, 9.5, 10.5, 11.5}},
		}
		probes := []any{"red", "green", "x y", "blue", "a", "only", "", "RED", 1, 2, 3, 10, -1, 0, 1.5, 2.5, 3.25, true, false, nil, []any{}, M{}, []any{"red"}, M{"off": 1}, []any{"off"}, "off", "trace", "b", "l", "m",
			"true", "false", "1", "2", "auto", "<nil>", "null", "1.5", "x", "y", "50%off", "10%off", "none", "100%", "%s", "50%!o(MISSING)ff", "5% flat",
			"a\"b", "back\\slash", "new\nline", "tab\there", "日本", "it's", "{{x}}", "$1", "new", "レベル１", "レベル２", "レベル1", "مرحله۱", "مرحله۲", "स्तर१", "स्तर१०", "v1", "v１", "v۱", "v2", "άλφα", "альфа", "ალფა", "ǆ", "ǅ", "ß", "ẞ", "ı", "İ", "i", 1073741824, 4294967296, 8589934592, -8589934592, 5, 4}
		var pcs []*core.PCase
		for _, name := range core.SortedKeys(shapes) {
			sh := shapes[name]
			for _, pos := range []string{"required", "optional", "items", "ref", "default"} {
				var schema M
				var mk func(v any) any
				switch pos {
				case "required":
					schema = M{"type": "object", "properties": M{"v": sh}, "required": []any{"v"}}
					mk = func(v any) any { return M{"v": v} }
				case "optional":
					schema = M{"type": "object", "properties": M{"v": sh}}
					mk = func(v any) any { return M{"v": v} }
				case "items":
					schema = M{"type": "object", "properties": M{"v": M{"type": "array", "items": sh}}, "required": []any{"v"}}
					mk = func(v any) any { return M{"v": []any{v}} }
				case "ref":
					if _, typed := sh["type"]; !typed {
						continue // an untyped enum definition reached by $ref is known finding K18
					}
					schema = M{"type": "object", "properties": M{"v": M{"$ref": "#/$defs/E"}}, "required": []any{"v"}, "$defs": M{"E": sh}}
					mk = func(v any) any { return M{"v": v} }
				case "default":
					if name == "mixed" || name == "mixed-null" || name == "percent-mixed" || strings.HasPrefix(name, "text-twins") || strings.HasPrefix(name, "large-mixed") {
						continue // default on a struct-wrapped enum: ill-typed literal, known finding K4
					}
					withDef := M{}
					for k, v := range sh {
						withDef[k] = v
					}
					withDef["default"] = sh["enum"].([]any)[0]
					schema = M{"type": "object", "properties": M{"v": withDef}}
					mk = func(v any) any { return M{"v": v} }
				}
				var docs []any
				for _, p := range probes {
					docs = append(docs, mk(p))
				}
				if pos == "optional" || pos == "default" {
					docs = append(docs, M{})
				}
				pcs = append(pcs, baseCase("c08-enum", schema, docs, name, pos))
			}
		}
		// same-named nodes whose enums differ (members, or only the JSON type of the members): each position keeps
		// its own accepted set
		var ndCases []*core.PCase
		for _, pc := range nearDupCases(c, "c08-near-duplicates") {
			if strings.Contains(pc.Labels[0], "enum") {
				ndCases = append(ndCases, pc)
			}
		}
		ndRes := runCases(c, ndCases)
		ndFails := verdictOracle(c, ndRes, "enum membership (same-named nodes)", nil)
		// next to "$defs", a stale legacy "definitions" block with the same names must not change anything
		pcs = append(pcs, staleDefinitionVariants(pcs, c.N(80, 800))...)
		res := runCases(c, pcs)
		fails := ndFails + verdictOracle(c, res, "enum membership", func(r *core.PResult, i int) bool {
			// null at a non-nullable position is the `null` convention (DESIGN §1.3): neither verdict is claimed
			d := r.DocJSON[i]
			return strings.Contains(d, "null") && r.Case.Labels[0] != "mixed-null"
		})
		// an enum the generator accepts must give a program that compiles (one constant per string member, all distinct),
		// unless the model predicts a listed non-compiling class
		for _, r := range res {
			if r.Real.ErrKind == "" && r.Real.Panic == "" && r.CompileErr != "" && len(r.ModelIssues) == 0 {
				fails++
				if fails <= 3 {
					c.Fail("oracle", "the generator accepts the enum ("+r.Case.Labels[0]+", "+r.Case.Labels[1]+") but the program does not compile: "+clip(r.CompileErr, 200), replayOf(r, -1, nil), false)
				}
			}
		}
		// marshal round trip + constants
		for _, r := range res {
			if r.RunsJ == nil {
				continue
			}
			for i, rr := range r.RunsJ {
				if rr.Kind != "ok" || r.Case.Labels[1] == "default" || r.DocJSON[i] == "{}" {
					continue
				}
				v, _ := core.ParseJSON([]byte(r.DocJSON[i]))
				if strings.Contains(r.DocJSON[i], "null") && (r.Case.Labels[0] != "mixed-null" || r.Case.Labels[1] == "optional") {
					continue // null is an empty value: an optional field holding it is omitted again (C02's "non-empty" clause)
				}
				if core.Canon(v) != rr.Canon {
					fails++
					if fails <= 3 {
						c.Fail("oracle", "an accepted enum value does not marshal back to the JSON value it was decoded from: "+rr.Canon, replayOf(r, i, nil), false)
					}
				}
			}
			// constants of string enums
			sh := shapes[r.Case.Labels[0]]
			vals := sh["enum"].([]any)
			allStr := true
			for _, v := range vals {
				if _, ok := v.(string); !ok {
					allStr = false
				}
			}
			if allStr && r.Real.Src != nil {
				consts := map[string]string{}
				for _, l := range strings.Split(r.Real.Summary, " | ") {
					if strings.HasPrefix(l, "const ") {
						parts := strings.SplitN(strings.TrimPrefix(l, "const "), " = ", 2)
						if len(parts) == 2 {
							consts[strings.Fields(parts[0])[0]] = parts[1]
						}
					}
				}
				got := map[string]int{}
				for _, v := range consts {
					got[v]++
				}
				for _, v := range vals {
					c.Eval("const|" + r.Case.Labels[0] + "|" + v.(string))
					if got[core.CanonStr(v.(string))] != 1 {
						fails++
						if fails <= 3 {
							c.Fail("oracle", fmt.Sprintf("string enum value %q has %d constants in the generated package (want exactly one)", v, got[core.CanonStr(v.(string))]), replayOf(r, -1, M{"constants": consts}), false)
						}
					}
				}
			}
			if len(c.Samples) < 6 {
				c.Sample(M{"schema": string(r.SchemaJSON), "doc": r.DocJSON[0], "labels": r.Case.Labels})
			}
		}
		res = append(res, ndRes...)
		breaks(c, res, nil, fails > 0)
		knownProgramFindings(c)
	})
}

package checks

import (
	"fmt"
	"os"
	"path/filepath"
	"regexp"
	"sort"
	"strings"
	"time"

	"github.com/atombender/go-jsonschema/pkg/generator"

	"verifharness/internal/core"
	"verifharness/internal/engine"
)

// Mapping order (C12): main.go assembles Config.SchemaMappings by ranging over maps keyed by schema id, so
// the slice reaches the generator in a random order, one mapping per id.  The stream gives the generator
// mapping sets whose ids are pairwise distinct but NEARLY equal (with / without a trailing '#' or '/', another
// letter case, a trailing space) in every slice order: the outputs must be identical, and must be what the
// model's `route` / `rootOverride` (exact equality, theorems route_perm / rootOverride_perm) say.
var pkgClauseRe12 = regexp.MustCompile(`(?m)^package (\S+)`)

func mappingOrderStream(c *engine.Ctx, fails *int) {
	tmp, _ := os.MkdirTemp("", "gjsc12m")
	defer os.RemoveAll(tmp)
	base := "https://example.com/widget"
	spell := []string{base, base + "#", base + "/", "HTTPS://example.com/widget", base + " ", "https://example.com/widge"}
	type mcase struct {
		id   string
		ms   []generator.SchemaMapping
		name string
	}
	var cases []mcase
	n := c.N(60, 600)
	for i := 0; i < n; i++ {
		id := core.Pick(c.R, spell[:3])
		k := c.R.Range(1, 4)
		var ms []generator.SchemaMapping
		for _, sp := range core.Sample(c.R, spell, k) {
			m := generator.SchemaMapping{SchemaID: sp, PackageName: "example.com/gen/" + core.Pick(c.R, []string{"main", "widgets", "other"})}
			if c.R.P(0.8) {
				m.OutputName = core.Pick(c.R, []string{"a.go", "b.go", "sub/c.go"})
			}
			if c.R.P(0.6) {
				m.RootType = core.Pick(c.R, []string{"Widget", "Gadget", "Thing"})
			}
			ms = append(ms, m)
		}
		cases = append(cases, mcase{id, ms, fmt.Sprintf("m%d", i)})
	}
	var reqs [][]byte
	var ids []string
	for i, mc := range cases {
		var lm []M
		for _, m := range mc.ms {
			lm = append(lm, M{"id": m.SchemaID, "pkg": m.PackageName, "root": m.RootType, "out": m.OutputName})
		}
		reqs = append(reqs, core.MustJSON(M{"op": "route", "id": i, "mappings": lm, "defOut": "default.go", "defPkg": "example.com/gen/dflt", "schemaID": mc.id}))
		ids = append(ids, fmt.Sprint(i))
	}
	ans, err := core.RunLean(reqs, ids)
	if err != nil {
		c.Fail("correspondence", "lean driver failed: "+err.Error(), M{"broken": "driver"}, true)
		return
	}
	for i, mc := range cases {
		dir := filepath.Join(tmp, mc.name)
		_ = os.MkdirAll(dir, 0o755)
		fn := filepath.Join(dir, "doc.json")
		_ = os.WriteFile(fn, core.MustJSON(M{"$id": mc.id, "type": "object", "properties": M{"a": M{"type": "string"}}}), 0o644)
		run := func(ms []generator.SchemaMapping) string {
			gc := generator.Config{DefaultOutputName: "default.go", DefaultPackageName: "example.com/gen/dflt", SchemaMappings: ms, Tags: []string{"json"}}
			res := core.RunRealFiles(gc, []string{fn}, 20*time.Second)
			if res.ErrKind != "" || res.Panic != "" {
				return "ERR " + res.ErrMsg + res.Panic
			}
			var names []string
			for f := range res.Sources {
				names = append(names, f)
			}
			sort.Strings(names)
			var b strings.Builder
			for _, f := range names {
				b.WriteString("// FILE " + f + "\n")
				b.Write(res.Sources[f])
			}
			return b.String()
		}
		ref := run(mc.ms)
		perms := permutations(len(mc.ms))
		for pi, perm := range perms {
			pm := make([]generator.SchemaMapping, len(mc.ms))
			for a, b := range perm {
				pm[a] = mc.ms[b]
			}
			got := run(pm)
			c.Eval(fmt.Sprintf("mapping-order|k=%d|perm%d|exact=%v", len(mc.ms), pi, hasExact(mc.ms, mc.id)))
			if got != ref {
				*fails++
				if *fails <= 3 {
					c.Fail("oracle", fmt.Sprintf("the generated files depend on the order of the schema mappings (which main.go takes from a map): order %v differs from the given order", perm),
						M{"kind": "mapping-order", "schema_id": mc.id, "mappings": mc.ms, "order": perm, "reference_output": clip(ref, 1500), "variant_output": clip(got, 1500)}, false)
				}
			}
		}
		// the model's routing
		l := ans[fmt.Sprint(i)].First("ROUTE")
		if l == nil || len(l) < 4 {
			c.Fail("correspondence", "no ROUTE answer from the model", M{"broken": "driver op route"}, true)
			return
		}
		var mFile, mPkg, mRoot string
		_ = jsonUnq(l[1], &mFile)
		_ = jsonUnq(l[2], &mPkg)
		_ = jsonUnq(l[3], &mRoot)
		want := ""
		if mFile != "" {
			root := mRoot
			if root == "" {
				root = "DocJson"
			}
			want = fmt.Sprintf("file=%s package=%s root=%s", mFile, mPkg[strings.LastIndex(mPkg, "/")+1:], root)
		}
		got := ""
		if strings.HasPrefix(ref, "// FILE ") {
			f := strings.TrimPrefix(strings.SplitN(ref, "\n", 2)[0], "// FILE ")
			pk := ""
			if m := pkgClauseRe12.FindStringSubmatch(ref); m != nil {
				pk = m[1]
			}
			rt := ""
			if m := regexp.MustCompile(`(?m)^type (\S+) struct`).FindStringSubmatch(ref); m != nil {
				rt = m[1]
			}
			got = fmt.Sprintf("file=%s package=%s root=%s", f, pk, rt)
		} else if strings.HasPrefix(ref, "ERR") {
			got = ref
		}
		c.Count("mapping-order", fmt.Sprintf("exact-match-present=%v", hasExact(mc.ms, mc.id)))
		if got != want {
			*fails++
			if *fails <= 3 {
				c.Fail("correspondence", fmt.Sprintf("routing: real %q, model (route / rootOverride, exact id equality) %q", got, want),
					M{"kind": "mapping-order", "schema_id": mc.id, "mappings": mc.ms, "broken": "correspondence Files.route / Files.rootOverride vs findOutputFileForSchemaID / getRootTypeName"}, false)
			}
		}
	}
	c.Programs += len(cases)
}

func hasExact(ms []generator.SchemaMapping, id string) bool {
	for _, m := range ms {
		if m.SchemaID == id {
			return true
		}
	}
	return false
}

func jsonUnq(s string, out *string) error { return jsonUnmarshalString(s, out) }

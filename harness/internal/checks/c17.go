package checks

import (
	"fmt"
	"strings"

	"verifharness/internal/core"
	"verifharness/internal/engine"
	"verifharness/internal/sgen"
)

// singleFaults builds, from a valid fully populated document, documents that violate exactly one
// required / bound / length / pattern / string-enum rule.
func singleFaults(g *sgen.G, root sgen.M, base any) (docs []any, kinds []string) {
	add := func(d any, k string) { docs = append(docs, d); kinds = append(kinds, k) }
	for _, p := range g.Positions(root, base) {
		s := p.Schema
		if p.InArrayDef {
			continue
		}
		// required
		props, _ := s["properties"].(sgen.M)
		for _, k := range p.Required {
			if ps, ok := props[k].(sgen.M); ok {
				if _, hasDef := ps["default"]; !hasDef {
					add(sgen.SetAt(base, append(append([]any(nil), p.Path...), k), nil, true), "required")
				}
			}
		}
		if len(p.Path) == 0 || p.IsItem {
			continue // constraints on primitive array elements are not enforced at all (K2): not a single-fault position
		}
		if _, isEnum := s["enum"]; isEnum {
			if t, _ := s["type"].(string); t == "string" {
				add(sgen.SetAt(base, p.Path, "not-a-member", false), "string-enum")
			}
			continue
		}
		if p.ViaRef && p.Nullable {
			continue // K16: a nullable primitive definition has no validator
		}
		tn := ""
		switch t := s["type"].(type) {
		case string:
			tn = t
		case []any:
			for _, x := range t {
				if x != "null" {
					tn, _ = x.(string)
				}
			}
		}
		switch tn {
		case "integer", "number":
			if m, ok := s["minimum"]; ok {
				add(sgen.SetAt(base, p.Path, toInt(m)-1, false), "bound")
			}
			if m, ok := s["maximum"]; ok {
				add(sgen.SetAt(base, p.Path, toInt(m)+1, false), "bound")
			}
		case "string":
			if _, isFmt := s["format"]; isFmt {
				continue
			}
			if m, ok := s["minLength"]; ok && toInt(m) > 0 {
				// shorter; must still satisfy nothing else in particular: a single fault may coincide with a pattern fault; skip if pattern present
				if _, hasPat := s["pattern"]; !hasPat {
					add(sgen.SetAt(base, p.Path, strings.Repeat("a", toInt(m)-1), false), "length")
				}
			}
			if m, ok := s["maxLength"]; ok {
				if _, hasPat := s["pattern"]; !hasPat {
					add(sgen.SetAt(base, p.Path, strings.Repeat("a", toInt(m)+1), false), "length")
				}
			}
			if _, hasPat := s["pattern"]; hasPat {
				_, a := s["minLength"]
				_, b := s["maxLength"]
				if !a && !b {
					add(sgen.SetAt(base, p.Path, "QQ", false), "pattern")
				}
			}
		}
	}
	return
}

func toInt(v any) int {
	switch t := v.(type) {
	case int:
		return t
	case float64:
		return int(t)
	}
	return 0
}

func init() {
	register("C17", func(c *engine.Ctx) {
		c.Rule = "random programs generated with --extra-imports (tree fragment plus scalar defaults; no date/time formats and no mixed enums: known finding K9); documents: a fully populated valid document, schema-directed valid documents, and single-fault documents (one required key removed, one bound exceeded by 1, one length off by 1, one pattern mismatch, one non-member of a string enum); plus required integer keys named with every punctuation character a tag may contain and with verb-like names (cpu%, %s, 100%, {{.}}): valid, each key missing, each bound exceeded; each decoded through the real UnmarshalJSON and the real UnmarshalYAML: same verdict and same re-marshalled value. Distinct = distinct (fault kind, verdict pair, document shape)."
		c.Proofs([]string{"GJS.Props.C17", "GJS.Props.ExactYaml", "GJS.Props.FlatExact", "GJS.Props.TreeExact"}, []string{
			"GJS.Props.Flat.flat_end_to_end_yaml", "GJS.Props.Flat.flat_end_to_end_full_yaml", "GJS.Props.Tree.tree_end_to_end_yaml",
			"GJS.Props.C17.acc_yaml_iff_json", "GJS.Props.C17.certified_exact_yaml", "GJS.Props.C17.certified_exact_yaml_wcB", "GJS.Props.C17.certified_yaml_json_same_set",
			"GJS.Props.C17.runAfter_wire_independent", "GJS.Props.C17.runBefore_wire_independent", "GJS.Props.C17.prim_decode_agree",
			"GJS.Props.C17.method_same_statements", "GJS.Props.C17.yaml_json_agree", "GJS.Props.C17.wcB_sound", "GJS.Props.C17.certified_yaml_json_agree", "GJS.Props.C17.yaml_json_same_verdict", "GJS.Props.C17.agree_all", "GJS.Props.C17.KF_yaml_int_in_mixed_enum", "GJS.Props.C17.KF_yaml_truncates_fraction",
		})
		factsOf(c, "receiverWrites", "templateQualifiers")
		o := treeOpts()
		o.Defaults = true
		var pcs []*core.PCase
		type meta struct{ kinds []string }
		var metas []meta
		for i := 0; i < c.N(200, 3500); i++ {
			g := sgen.New(c.R, o)
			root := g.Root("")
			base := g.FullSample(root, 0)
			if containsNull(base) || hasMixedEnum(root) {
				continue
			}
			docs := []any{base}
			kinds := []string{"valid"}
			for k := 0; k < 4; k++ {
				docs = append(docs, g.Sample(root, 0))
				kinds = append(kinds, "sampled")
			}
			fd, fk := singleFaults(g, root, base)
			docs = append(docs, fd...)
			kinds = append(kinds, fk...)
			pc := baseCase("c17-yaml-json", root, docs)
			pc.Cfg.ExtraImports = true
			if i%4 == 3 {
				// --extra-imports with a --tags list that lacks `yaml`: the YAML methods are there all the same, and
				// yaml.v3 then binds a key by the lower-cased FIELD name.  Inside the property's claim only where
				// that is the property's own name (lower-case letters and digits); elsewhere the listed finding K37
				pc.Cfg.Tags = core.Pick(c.R, [][]string{{"json"}, {"json", "mapstructure"}})
				pc.Labels = append(pc.Labels, "no-yaml-tag")
				if !allKeysLowerAlnum(root) {
					pc.Labels = append(pc.Labels, "K37-region")
				}
			}
			if i%4 == 1 {
				// tag lists LONGER than the default three, and in other orders: every wire still finds its own key
				pc.Cfg.Tags = core.Pick(c.R, [][]string{{"json", "yaml", "mapstructure", "toml"}, {"yaml", "json", "toml", "xml", "mapstructure"}, {"toml", "yaml", "json", "bson"}, {"yaml", "json"}})
				pc.Labels = append(pc.Labels, "many-tags")
			}
			pcs = append(pcs, pc)
			metas = append(metas, meta{kinds})
		}
		// … and a fixed family with camelCase / snake_case names (the key differs from the lower-cased field name) under
		// tag lists of two to six entries
		for _, tags := range [][]string{{"yaml", "json"}, {"json", "yaml", "mapstructure"}, {"json", "yaml", "mapstructure", "toml"}, {"json", "yaml", "mapstructure", "toml", "xml"}, {"bson", "toml", "xml", "json", "mapstructure", "yaml"}} {
			sch := M{"type": "object", "required": []any{"userName"}, "properties": M{
				"userName": M{"type": "string"}, "nickName": M{"type": "string", "minLength": 3}, "retry_count": M{"type": "integer", "maximum": 10},
				"homeRegion": M{"type": "string", "default": "eu"}, "port": M{"type": "integer", "minimum": 1}}}
			full := M{"userName": "alice", "nickName": "ally", "retry_count": 3, "homeRegion": "us", "port": 80}
			docs := []any{full, M{"userName": "alice"}, M{"userName": "alice", "nickName": "al"}, M{"userName": "alice", "retry_count": 11}, M{"userName": "alice", "port": 0}, M{"nickName": "ally"}}
			pc := baseCase("c17-yaml-json", sch, docs, "many-tags", strings.Join(tags, ","))
			pc.Cfg.ExtraImports = true
			pc.Cfg.Tags = tags
			pcs = append(pcs, pc)
			metas = append(metas, meta{[]string{"valid", "valid", "length", "bound", "bound", "required"}})
		}
		// fractional bounds on INTEGER members in every spelling (inclusive, numeric exclusive, boolean exclusive), values on
		// both neighbouring integers: the bound is rounded when the check is emitted, once per wire
		{
			sch := M{"type": "object", "properties": M{
				"a": M{"type": "integer", "minimum": 1.5, "exclusiveMinimum": true}, "b": M{"type": "integer", "maximum": 9.5, "exclusiveMaximum": true},
				"c": M{"type": "integer", "minimum": 1.5}, "d": M{"type": "integer", "exclusiveMinimum": 1.5}, "e": M{"type": "integer", "maximum": -2.5},
				"f": M{"type": "integer", "exclusiveMaximum": -2.5}, "g": M{"type": "integer", "minimum": -0.5, "maximum": 0.5}}}
			var docs []any
			var kinds []string
			for _, kv := range []struct {
				k string
				v int
			}{{"a", 1}, {"a", 2}, {"b", 9}, {"b", 10}, {"c", 1}, {"c", 2}, {"d", 1}, {"d", 2}, {"e", -3}, {"e", -2}, {"f", -3}, {"f", -2}, {"g", 0}, {"g", 1}, {"g", -1}} {
				docs = append(docs, M{kv.k: kv.v})
				kinds = append(kinds, "bound")
			}
			pc := baseCase("c17-yaml-json", sch, docs, "fractional-integer-bounds")
			pc.Cfg.ExtraImports = true
			pcs = append(pcs, pc)
			metas = append(metas, meta{kinds})
		}
		// … and a fixed family with lower-case one-word names under every tag list without `yaml`
		for _, tags := range [][]string{{"json"}, {"json", "mapstructure"}, {"mapstructure", "json"}, {"json", "toml"}} {
			sch := M{"type": "object", "required": []any{"name"}, "properties": M{
				"name": M{"type": "string", "minLength": 3, "maxLength": 8}, "level": M{"type": "integer", "minimum": 1, "maximum": 10},
				"mode": M{"type": "string", "enum": []any{"fast", "slow"}}, "code": M{"type": "string", "pattern": "^[0-9]+$"}, "limit": M{"type": "integer", "default": 7},
				"items": M{"type": "array", "items": M{"type": "integer"}, "minItems": 1}}}
			full := M{"name": "alice", "level": 3, "mode": "fast", "code": "123", "limit": 9, "items": []any{1}}
			docs := []any{full, M{"name": "alice"}}
			kinds := []string{"valid", "valid"}
			for _, f := range []struct {
				k string
				v any
				w string
			}{{"name", nil, "required"}, {"name", "ab", "length"}, {"name", "abcdefghi", "length"}, {"level", 0, "bound"}, {"level", 11, "bound"}, {"mode", "warp", "enum"}, {"code", "abc", "pattern"}, {"items", []any{}, "length"}} {
				d := sgen.DeepCopy(full).(M)
				if f.v == nil {
					delete(d, f.k)
				} else {
					d[f.k] = f.v
				}
				docs = append(docs, d)
				kinds = append(kinds, f.w)
			}
			pc := baseCase("c17-yaml-json", sch, docs, "no-yaml-tag", strings.Join(tags, ","))
			pc.Cfg.ExtraImports = true
			pc.Cfg.Tags = tags
			pcs = append(pcs, pc)
			metas = append(metas, meta{kinds})
		}
		// property names with every punctuation character a tag name may contain, and names that look like format
		// verbs / escapes, as REQUIRED and as optional keys: both decoders must look the key up under its exact name
		const tagPunct17 = "!#$%&()*+-./:;<=>?@[]^_{|}~ "
		var nameSets [][]string
		for _, ch := range tagPunct17 {
			nameSets = append(nameSets, []string{"a" + string(ch) + "b", "y" + string(ch)})
		}
		nameSets = append(nameSets, []string{"cpu%", "host"}, []string{"%s", "100%", "a%%b"}, []string{"%d%v", "x"}, []string{"{{.}}", "$1"},
			// names that are special to the tag syntax itself (inside the listed findings K5 for the binding of the key;
			// what is judged here is only that the two decoders AGREE, and that neither panics)
			[]string{"-", "name"}, []string{"-"}, []string{"--", "x"})
		for _, set := range nameSets {
			props := M{}
			full := M{}
			for i, nm := range set {
				props[nm] = M{"type": "integer", "minimum": 1}
				full[nm] = 5 + i
			}
			docs := []any{full}
			kinds := []string{"valid"}
			for _, nm := range set {
				d := sgen.DeepCopy(full).(M)
				delete(d, nm)
				docs = append(docs, d)
				kinds = append(kinds, "required")
				b := sgen.DeepCopy(full).(M)
				b[nm] = 0
				docs = append(docs, b)
				kinds = append(kinds, "bound")
			}
			pc := baseCase("c17-key-names", M{"type": "object", "properties": props, "required": toAnyS(set)}, docs, strings.Join(set, " "))
			pc.Cfg.ExtraImports = true
			pcs = append(pcs, pc)
			metas = append(metas, meta{kinds})
		}
		// item counts, also the fixed count minItems == maxItems, on an array written inline, as a definition reached by
		// $ref (two uses) and as array items: a wrong count must get the same verdict (and value) from both decoders
		for _, lm := range [][2]int{{2, 2}, {1, 1}, {3, 3}, {1, 3}, {0, 2}, {2, 0}} {
			for _, et := range []string{"number", "string"} {
				for _, where := range []string{"inline", "definition", "definition-items"} {
					arr := M{"type": "array", "items": M{"type": et}}
					if lm[0] != 0 {
						arr["minItems"] = lm[0]
					}
					if lm[1] != 0 {
						arr["maxItems"] = lm[1]
					}
					elems := func(n int) []any {
						out := []any{}
						for k := 0; k < n; k++ {
							if et == "number" {
								out = append(out, k+1)
							} else {
								out = append(out, fmt.Sprintf("s%d", k))
							}
						}
						return out
					}
					var schema M
					var mk func(v any) any
					switch where {
					case "inline":
						schema = M{"type": "object", "properties": M{"name": M{"type": "string"}, "origin": arr, "size": sgen.DeepCopy(arr)}, "required": []any{"name"}}
						mk = func(v any) any { return M{"name": "a", "origin": v} }
					case "definition":
						schema = M{"type": "object", "properties": M{"name": M{"type": "string"}, "origin": M{"$ref": "#/$defs/Point"}, "size": M{"$ref": "#/$defs/Point"}}, "required": []any{"name"}, "$defs": M{"Point": arr}}
						mk = func(v any) any { return M{"name": "a", "origin": v} }
					default:
						schema = M{"type": "object", "properties": M{"name": M{"type": "string"}, "points": M{"type": "array", "items": M{"$ref": "#/$defs/Point"}}}, "required": []any{"name"}, "$defs": M{"Point": arr}}
						mk = func(v any) any { return M{"name": "a", "points": []any{v, v}} }
					}
					var docs []any
					var kinds []string
					for _, n := range []int{lm[0] - 1, lm[0], lm[1], lm[1] + 1, 0, 5} {
						if n < 0 {
							continue
						}
						docs = append(docs, mk(elems(n)))
						if (lm[0] != 0 && n < lm[0]) || (lm[1] != 0 && n > lm[1]) {
							kinds = append(kinds, "length")
						} else {
							kinds = append(kinds, "valid")
						}
					}
					pc := baseCase("c17-array-counts", schema, docs, fmt.Sprint(lm), et, where)
					pc.Cfg.ExtraImports = true
					pcs = append(pcs, pc)
					metas = append(metas, meta{kinds})
				}
			}
		}
		res := runCases(c, pcs)
		fails := 0
		for ri, r := range res {
			if r.RunsJ == nil || r.RunsY == nil {
				continue
			}
			if containsStr(r.Case.Labels, "K37-region") && knownListed(c, "K37-yaml-key-without-yaml-tag") {
				c.Count("c17", "K37 region (no yaml tag and a property name that is not its own lower-cased field name; judged by the listed witness)")
				continue
			}
			for i := range r.DocJSON {
				kind := metas[ri].kinds[i]
				j, y := r.RunsJ[i], r.RunsY[i]
				if kind == "sampled" {
					// only documents the reference calls valid are in the property's quantifier
					if i >= len(r.ModelRuns) || r.ModelRuns[i].Spec != "valid" {
						continue
					}
				}
				c.Eval(fmt.Sprintf("%s|%s/%s|%s", kind, j.Kind, y.Kind, classOfDoc(r.DocJSON[i])))
				c.Count("json/yaml", kind+": "+j.Kind+"/"+y.Kind)
				if j.Kind != y.Kind || (j.Kind == "ok" && j.Canon != y.Canon) {
					fails++
					if fails <= 3 {
						c.Fail("oracle", fmt.Sprintf("UnmarshalJSON and UnmarshalYAML disagree on a %s document: json=%s %s yaml=%s %s", kind, j.Kind, clip(j.Canon+j.Msg, 150), y.Kind, clip(y.Canon+y.Msg, 150)),
							replayOf(r, i, M{"fault": kind}), false)
					}
				}
			}
			if len(c.Samples) < 6 && len(r.DocJSON) > 5 {
				c.Sample(M{"schema": clip(string(r.SchemaJSON), 300), "doc": r.DocJSON[5], "kind": metas[ri].kinds[5]})
			}
		}
		// how much of what was compared is inside the theorem (documents the driver certifies wire-compatible)
		wc, nd := 0, 0
		for _, r := range res {
			if r.Cert != nil {
				var a, b int
				fmt.Sscan(r.Cert["wc"], &a)
				fmt.Sscan(r.Cert["docs"], &b)
				wc += a
				nd += b
			}
		}
		c.Count("theorem-coverage", fmt.Sprintf("documents certified wire-compatible (yaml_json_agree applies): %d of %d", wc, nd))
		// the YAML methods exist whenever --extra-imports is given, whatever the other flags say: the command line
		// generates what the library generates (all rows with -e of the option matrix)
		cliEqualsLibrary(c, buildCLI(c), true, &fails)
		breaks(c, res, nil, fails > 0)
		c.FactsVerdict(fails > 0)
		knownProgramFindings(c)
		knownPairFindings(c)
	})
}

// allKeysLowerAlnum: every property name of the schema is lower-case letters and digits, starting with a letter
// (then the lower-cased Go field name is the name itself).
func allKeysLowerAlnum(v any) bool {
	switch t := v.(type) {
	case sgen.M:
		for _, kw := range []string{"properties", "$defs", "definitions"} {
			if ps, ok := t[kw].(sgen.M); ok {
				for k, x := range ps {
					if kw == "properties" {
						for i, ch := range k {
							if !(ch >= 'a' && ch <= 'z') && !(i > 0 && ch >= '0' && ch <= '9') {
								return false
							}
						}
						if k == "" {
							return false
						}
					}
					if !allKeysLowerAlnum(x) {
						return false
					}
				}
			}
		}
		for k, x := range t {
			if k != "properties" && k != "$defs" && k != "definitions" && !allKeysLowerAlnum(x) {
				return false
			}
		}
	case []any:
		for _, x := range t {
			if !allKeysLowerAlnum(x) {
				return false
			}
		}
	}
	return true
}

func hasMixedEnum(v any) bool {
	switch t := v.(type) {
	case sgen.M:
		if e, ok := t["enum"].([]any); ok {
			if _, typed := t["type"]; !typed {
				kinds := map[string]bool{}
				for _, x := range e {
					kinds[fmt.Sprintf("%T", x)] = true
				}
				if len(kinds) > 1 {
					return true
				}
				// untyped numeric enums decode through interface{}? no: homogeneous -> float64 carrier. fine.
			}
		}
		for _, x := range t {
			if hasMixedEnum(x) {
				return true
			}
		}
	case []any:
		for _, x := range t {
			if hasMixedEnum(x) {
				return true
			}
		}
	}
	return false
}

// Package checks holds one check per property.
package checks

import (
	"encoding/json"
	"fmt"
	"strings"

	"verifharness/internal/core"
	"verifharness/internal/engine"
	"verifharness/internal/facts"
	"verifharness/internal/sgen"
)

type M = map[string]any

type Check struct {
	ID  string
	Run func(c *engine.Ctx)
}

var Registry = map[string]*Check{}

func register(id string, run func(c *engine.Ctx)) { Registry[id] = &Check{ID: id, Run: run} }

// factsOf regenerates the facts from /repo and ties the listed groups (see internal/facts).
func factsOf(c *engine.Ctx, groups ...string) {
	c.Facts(func() (string, error) {
		f, err := facts.Extract("/repo")
		if err != nil {
			return "", err
		}
		return f.Lean("GJS.Facts", "/- REGENERATED from /repo on every run by `verif` (internal/facts). Do not edit. -/\n"), nil
	}, groups...)
}

// replayOf describes one program case (and optionally one document) so that `verif replay` can re-run it.
func replayOf(r *core.PResult, doc int, extra M) M {
	m := M{"kind": "program-doc", "cfg": r.Case.Cfg, "schema": json.RawMessage(r.SchemaJSON), "type": r.Case.DecodeType, "stream": r.Case.Stream}
	if doc >= 0 && doc < len(r.DocJSON) {
		m["doc"] = json.RawMessage(r.DocJSON[doc])
		if doc < len(r.RunsJ) {
			m["real_json"] = r.RunsJ[doc].Kind + " " + r.RunsJ[doc].Canon + r.RunsJ[doc].Msg
		}
		if doc < len(r.RunsY) && r.RunsY != nil {
			m["real_yaml"] = r.RunsY[doc].Kind + " " + r.RunsY[doc].Canon + r.RunsY[doc].Msg
		}
		if doc < len(r.ModelRuns) {
			m["model_json"] = r.ModelRuns[doc].J
			m["model_yaml"] = r.ModelRuns[doc].Y
			m["spec"] = r.ModelRuns[doc].Spec
		}
	}
	for k, v := range extra {
		m[k] = v
	}
	return m
}

// runCases pushes the cases through the pipeline and books programs / streams in the evidence.
func runCases(c *engine.Ctx, cases []*core.PCase) []*core.PResult {
	if len(cases) == 0 {
		return nil
	}
	for i, cs := range cases {
		cs.ID = i
	}
	var all []*core.PResult
	const chunk = 1500
	for off := 0; off < len(cases); off += chunk {
		end := off + chunk
		if end > len(cases) {
			end = len(cases)
		}
		res, batch, err := core.RunPipeline(cases[off:end])
		if batch != nil {
			batch.Close()
		}
		if err != nil {
			c.Fail("correspondence", "pipeline failed: "+err.Error(), M{"broken": "pipeline", "error": err.Error()}, true)
			return all
		}
		all = append(all, res...)
	}
	for _, r := range all {
		c.Programs++
		c.Streams[r.Case.Stream]++
		if r.Unsupported {
			c.Count("model", "unsupported")
		}
	}
	return all
}

// breaks reports every model≠implementation disagreement in the given aspects as a correspondence break.
// haveInput tells whether this run already exhibited a concrete property failure (then the break is
// reported with that knowledge; otherwise with no-failing-input-found).
func breaks(c *engine.Ctx, results []*core.PResult, aspects map[string]bool, haveInput bool) {
	n := 0
	for _, r := range results {
		for _, d := range r.Dis {
			if aspects != nil && !aspects[d.Aspect] {
				continue
			}
			n++
			if n > 3 {
				continue
			}
			di := -1
			for i, dj := range r.DocJSON {
				if dj == d.Doc {
					di = i
				}
			}
			c.Fail("correspondence", fmt.Sprintf("model and implementation disagree (%s): real=%s model=%s", d.Aspect, clip(d.Real, 300), clip(d.Model, 300)),
				replayOf(r, di, M{"broken": "correspondence stream " + r.Case.Stream + " / aspect " + d.Aspect, "disagreement": d}), !haveInput)
		}
	}
	if n > 3 {
		c.Note("%d further correspondence disagreements not reported individually", n-3)
	}
	c.Count("correspondence", fmt.Sprintf("disagreements=%d", n))
}

func clip(s string, n int) string {
	if len(s) > n {
		return s[:n] + "…"
	}
	return s
}

// verdictOracle checks, for every document of every result that compiled and ran, that the real verdict is
// the reference verdict (Spec, evaluated by the Lean driver). skip may exclude documents that are
// outside the property's scope. Returns the number of oracle failures.
func verdictOracle(c *engine.Ctx, results []*core.PResult, what string, skip func(r *core.PResult, doc int) bool) int {
	crossCheckSpec(c, results)
	fails := 0
	for _, r := range results {
		if r.RunsJ == nil || r.Unsupported {
			continue
		}
		for i := range r.DocJSON {
			if i >= len(r.ModelRuns) {
				continue
			}
			if skip != nil && skip(r, i) {
				c.Count("oracle", "skipped-out-of-scope")
				continue
			}
			spec := r.ModelRuns[i].Spec
			real := r.RunsJ[i].Kind
			key := r.Case.Stream + "|" + strings.Join(r.Case.Labels, ",") + "|" + spec + "|" + real + "|" + classOfDoc(r.DocJSON[i])
			c.Eval(key)
			c.Count("verdict", spec+"/"+real)
			if real == "reject" {
				c.Count("reject-kind", core.ClassifyReject(r.RunsJ[i].Msg))
			}
			ok := (spec == "valid" && real == "ok") || (spec == "invalid" && real == "reject")
			if !ok {
				fails++
				if fails <= 3 {
					c.Fail("oracle", fmt.Sprintf("%s: reference says %s, generated code says %s (%s)", what, spec, real, clip(r.RunsJ[i].Msg, 200)),
						replayOf(r, i, nil), false)
				}
			}
		}
	}
	return fails
}

// classOfDoc abstracts a document to a coarse class (for distinct-case counting).
func classOfDoc(doc string) string {
	v, err := core.ParseJSON([]byte(doc))
	if err != nil {
		return "?"
	}
	var b strings.Builder
	shape(&b, v, 0)
	return b.String()
}

func shape(b *strings.Builder, v any, depth int) {
	switch t := v.(type) {
	case nil:
		b.WriteString("n")
	case bool:
		b.WriteString("b")
	case json.Number:
		b.WriteString("#" + string(t))
	case string:
		fmt.Fprintf(b, "s%d", len([]rune(t)))
	case []any:
		fmt.Fprintf(b, "[%d", len(t))
		if depth < 3 {
			for _, x := range t {
				shape(b, x, depth+1)
			}
		}
		b.WriteString("]")
	case map[string]any:
		b.WriteString("{")
		for _, k := range core.SortedKeys(t) {
			b.WriteString(k + ":")
			if depth < 3 {
				shape(b, t[k], depth+1)
			}
		}
		b.WriteString("}")
	}
}

// ---------- single-field programs ----------

type Position string

const (
	PosRequired Position = "required"
	PosOptional Position = "optional"
	PosNullable Position = "nullable"
	PosDef      Position = "definition"
	PosNested   Position = "nested"
	PosDefault  Position = "default" // optional, with a default the caller has put into the property schema
)

var AllPositions = []Position{PosRequired, PosOptional, PosNullable, PosDef, PosNested, PosDefault}

// fieldProgram wraps a property schema at the given position; mk builds the document for one value
// (absent=true builds the document without the key).
func fieldProgram(pos Position, prop M) (schema M, mk func(v any, absent bool) any) {
	p := sgen.DeepCopy(prop).(M)
	switch pos {
	case PosRequired:
		schema = M{"type": "object", "properties": M{"v": p}, "required": []any{"v"}}
	case PosOptional, PosDefault:
		schema = M{"type": "object", "properties": M{"v": p}}
	case PosNullable:
		if t, ok := p["type"].(string); ok {
			p["type"] = []any{t, "null"}
		}
		schema = M{"type": "object", "properties": M{"v": p}}
	case PosDef:
		schema = M{"type": "object", "properties": M{"v": M{"$ref": "#/$defs/D"}}, "required": []any{"v"}, "$defs": M{"D": p}}
	case PosNested:
		inner := M{"type": "object", "properties": M{"v": p}, "required": []any{"v"}}
		schema = M{"type": "object", "properties": M{"o": inner}, "required": []any{"o"}}
		return schema, func(v any, absent bool) any {
			if absent {
				return M{"o": M{}}
			}
			return M{"o": M{"v": v}}
		}
	}
	return schema, func(v any, absent bool) any {
		if absent {
			return M{}
		}
		return M{"v": v}
	}
}

func baseCase(stream string, schema M, docs []any, labels ...string) *core.PCase {
	cfg := core.DefaultCfg()
	cfg.RootType = "Root"
	return &core.PCase{Cfg: cfg, Schema: schema, Docs: docs, Labels: labels, Stream: stream}
}

func jsonUnmarshalString(s string, out *string) error { return json.Unmarshal([]byte(s), out) }

// addStaleDefinitions gives a schema that keeps its definitions under "$defs" a legacy "definitions" block with the
// same names and different content.  "#/$defs/<name>" points into "$defs"; a keyword block the references do not
// point into must not change what they resolve to.  Reports whether the schema qualified.
func addStaleDefinitions(root M) bool {
	defs, ok := root["$defs"].(M)
	if !ok || len(defs) == 0 {
		return false
	}
	if _, has := root["definitions"]; has {
		return false
	}
	if strings.Contains(string(core.MustJSON(root)), "#/definitions/") {
		return false
	}
	hostile := []M{
		{"type": "boolean"},
		{"type": "integer", "minimum": 1000000},
		{"type": "string", "enum": []any{"__stale__"}},
		{"type": "object", "required": []any{"__stale__"}, "properties": M{"__stale__": M{"type": "string"}}},
	}
	stale := M{}
	for i, k := range core.SortedKeys(defs) {
		stale[k] = sgen.DeepCopy(hostile[i%len(hostile)])
	}
	root["definitions"] = stale
	return true
}

// staleDefinitionVariants: copies of up to max of the given single-file cases, each with a stale "definitions" block
// next to its "$defs" (same stream, same documents, label "stale-definitions"): judged exactly like the originals.
func staleDefinitionVariants(pcs []*core.PCase, max int) []*core.PCase {
	var out []*core.PCase
	for _, pc := range pcs {
		if len(out) >= max {
			break
		}
		root, ok := pc.Schema.(M)
		if !ok || len(pc.Files) > 0 || pc.MainBytes != nil {
			continue
		}
		cp := sgen.DeepCopy(root).(M)
		if !addStaleDefinitions(cp) {
			continue
		}
		v := *pc
		v.Schema = cp
		v.Labels = append(append([]string{}, pc.Labels...), "stale-definitions")
		out = append(out, &v)
	}
	return out
}

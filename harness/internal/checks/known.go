package checks

import (
	"encoding/json"
	"fmt"
	"os"
	"path/filepath"
	"sort"
	"strings"
	"time"

	"verifharness/internal/core"
	"verifharness/internal/engine"
)

// programWitness is the witness of a known finding of kind "program-doc".
type programWitness struct {
	Cfg    *core.Cfg       `json:"cfg"`
	Schema json.RawMessage `json:"schema"`
	Doc    json.RawMessage `json:"doc"`
	Wire   string          `json:"wire"` // J (default) or Y
	Type   string          `json:"type"`
}

// observe runs a program-doc witness against the real code and returns a short description of what it did:
// gen-error <kind> | compile-fail | ok <canon> | reject | panic | unparsable-output
func observe(w programWitness) (string, *core.PResult) {
	cfg := core.DefaultCfg()
	cfg.RootType = "Root"
	if w.Cfg != nil {
		cfg = *w.Cfg
	}
	if w.Wire == "Y" {
		cfg.ExtraImports = true
	}
	var schema, doc any
	schema, _ = core.ParseJSON(w.Schema)
	var docs []any
	if len(w.Doc) > 0 {
		doc, _ = core.ParseJSON(w.Doc)
		docs = []any{doc}
	}
	pc := &core.PCase{ID: 0, Cfg: cfg, Schema: schema, Docs: docs, DecodeType: w.Type, Stream: "known-finding"}
	res, batch, err := core.RunPipeline([]*core.PCase{pc})
	if batch != nil {
		batch.Close()
	}
	if err != nil || len(res) == 0 {
		return "pipeline-error " + fmt.Sprint(err), nil
	}
	r := res[0]
	switch {
	case r.Real.Panic != "":
		return "gen-panic", r
	case r.Real.ErrKind != "":
		return "gen-error " + r.Real.ErrKind, r
	case r.Real.ParseErr != "" || r.Real.Unformatted:
		return "unparsable-output", r
	case r.CompileErr != "":
		return "compile-fail", r
	}
	if len(docs) == 0 {
		return "generates", r
	}
	runs := r.RunsJ
	if w.Wire == "Y" {
		runs = r.RunsY
	}
	if len(runs) == 0 {
		return "no-run", r
	}
	switch runs[0].Kind {
	case "ok":
		return "ok " + runs[0].Canon, r
	default:
		return runs[0].Kind, r
	}
}

// knownProgramFindings replays every known finding of kind program-doc recorded for this property.
// open: must still behave as recorded -> KNOWN-FINDING line; if it now behaves as expected it is only noted.
// fixed: must behave as expected; otherwise the violation has returned.
func knownProgramFindings(c *engine.Ctx) {
	for _, k := range c.KnownFor() {
		if k.Kind != "program-doc" {
			continue
		}
		var w programWitness
		if err := json.Unmarshal(k.Witness, &w); err != nil {
			c.Note("known finding %s: bad witness: %v", k.ID, err)
			continue
		}
		got, r := observe(w)
		matches := func(pat string) bool {
			return got == pat || (strings.HasSuffix(pat, "*") && strings.HasPrefix(got, strings.TrimSuffix(pat, "*")))
		}
		c.Count("known-findings", k.Status)
		switch k.Status {
		case "open":
			switch {
			case matches(k.Observed):
				c.ReportKnown(k)
				// the model must predict the recorded behaviour too (invariant 1 on the defect region)
				if r != nil && len(r.Dis) > 0 {
					c.Fail("correspondence", "known finding "+k.ID+": the model no longer mirrors the recorded behaviour: "+clip(fmt.Sprint(r.Dis[0]), 300),
						M{"broken": "known-finding witness " + k.ID, "witness": k.Witness}, true)
				}
			case matches(k.Expected):
				c.Note("known finding %s no longer reproduces: the real code now does what the property demands (%s)", k.ID, got)
			default:
				c.Fail("oracle", fmt.Sprintf("known finding %s changed: recorded %q, property demands %q, real code now does %q", k.ID, k.Observed, k.Expected, got),
					M{"kind": "program-doc", "finding": k.ID, "witness": k.Witness, "now": got}, false)
			}
		case "fixed":
			if !matches(k.Expected) {
				c.Fail("oracle", fmt.Sprintf("fixed finding %s has returned: property demands %q, real code does %q", k.ID, k.Expected, got),
					M{"kind": "program-doc", "finding": k.ID, "witness": k.Witness, "now": got}, false)
			}
		}
	}
}

// pairWitness: two programs that the property says must agree (flag on/off, two spellings, ...).
type pairWitness struct {
	A programWitness `json:"a"`
	B programWitness `json:"b"`
}

func verdictOf(s string) string {
	if len(s) >= 2 && s[:2] == "ok" {
		return "ok"
	}
	return s
}

// knownPairFindings replays findings of kind "program-pair": observed is "<verdictA>/<verdictB>".
func knownPairFindings(c *engine.Ctx) {
	for _, k := range c.KnownFor() {
		if k.Kind != "program-pair" {
			continue
		}
		var w pairWitness
		if err := json.Unmarshal(k.Witness, &w); err != nil {
			c.Note("known finding %s: bad witness: %v", k.ID, err)
			continue
		}
		a, _ := observe(w.A)
		b, _ := observe(w.B)
		got := verdictOf(a) + "/" + verdictOf(b)
		c.Count("known-findings", k.Status)
		same := verdictOf(a) == verdictOf(b) && (verdictOf(a) != "ok" || a == b)
		switch k.Status {
		case "open":
			switch {
			case got == k.Observed:
				c.ReportKnown(k)
			case same:
				c.Note("known finding %s no longer reproduces: both sides now agree (%s)", k.ID, got)
			default:
				c.Fail("oracle", fmt.Sprintf("known finding %s changed: recorded %q, real code now does %q", k.ID, k.Observed, got),
					M{"kind": "program-pair", "finding": k.ID, "witness": k.Witness, "now": got}, false)
			}
		case "fixed":
			if !same {
				c.Fail("oracle", fmt.Sprintf("fixed finding %s has returned: the two programs disagree (%s)", k.ID, got),
					M{"kind": "program-pair", "finding": k.ID, "witness": k.Witness, "now": got}, false)
			}
		}
	}
}

// multiFileWitness: several schema files and an invocation; the finding is about the generated text.
type multiFileWitness struct {
	Files       map[string]string `json:"files"`
	Args        []string          `json:"args"`
	Cfg         *core.Cfg         `json:"cfg"`
	Contains    []string          `json:"contains"`     // substrings the CORRECT output contains
	NotContains []string          `json:"not_contains"` // substrings the correct output does not contain
}

func runMultiFile(w multiFileWitness) (string, error) {
	dir, err := os.MkdirTemp("", "gjsmulti")
	if err != nil {
		return "", err
	}
	defer os.RemoveAll(dir)
	for name, data := range w.Files {
		fn := filepath.Join(dir, name)
		_ = os.MkdirAll(filepath.Dir(fn), 0o755)
		if err := os.WriteFile(fn, []byte(data), 0o644); err != nil {
			return "", err
		}
	}
	cfg := core.DefaultCfg()
	if w.Cfg != nil {
		cfg = *w.Cfg
	}
	var args []string
	for _, a := range w.Args {
		args = append(args, filepath.Join(dir, a))
	}
	res := core.RunRealFiles(cfg.GeneratorConfig("", nil), args, 20*time.Second)
	if res.Panic != "" {
		return "PANIC " + res.Panic, nil
	}
	if res.ErrKind != "" {
		return "ERROR " + res.ErrMsg, nil
	}
	var names []string
	for n := range res.Sources {
		names = append(names, n)
	}
	sort.Strings(names)
	var b strings.Builder
	for _, n := range names {
		b.WriteString("// FILE " + n + "\n")
		b.Write(res.Sources[n])
	}
	return b.String(), nil
}

// knownMultiFileFindings replays findings of kind "generator-output".
func knownMultiFileFindings(c *engine.Ctx) {
	for _, k := range c.KnownFor() {
		if k.Kind != "generator-output" {
			continue
		}
		var w multiFileWitness
		if err := json.Unmarshal(k.Witness, &w); err != nil {
			c.Note("known finding %s: bad witness: %v", k.ID, err)
			continue
		}
		out, err := runMultiFile(w)
		if err != nil {
			c.Note("known finding %s: %v", k.ID, err)
			continue
		}
		correct := true
		for _, s := range w.Contains {
			if !strings.Contains(out, s) {
				correct = false
			}
		}
		for _, s := range w.NotContains {
			if strings.Contains(out, s) {
				correct = false
			}
		}
		c.Count("known-findings", k.Status)
		switch k.Status {
		case "open":
			if correct {
				c.Note("known finding %s no longer reproduces: the generated output is now what the property demands", k.ID)
			} else {
				c.ReportKnown(k)
			}
		case "fixed":
			if !correct {
				c.Fail("oracle", "fixed finding "+k.ID+" has returned: "+k.What, M{"kind": "generator-output", "finding": k.ID, "witness": k.Witness, "output": clip(out, 3000)}, false)
			}
		}
	}
}

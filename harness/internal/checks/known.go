package checks

import (
	"encoding/json"
	"fmt"
	"strings"

	"verifharness/internal/core"
	"verifharness/internal/engine"
)

// programWitness is the witness of a known finding of kind "program-doc".
type programWitness struct {
	Cfg    *core.Cfg       `json:"cfg"`
	Schema json.RawMessage `json:"schema"`
	Doc    json.RawMessage `json:"doc"`
	Wire   string          `json:"wire"` // J (default) or Y
	Type   string          `json:"type"`
}

// observe runs a program-doc witness against the real code and returns a short description of what it did:
// gen-error <kind> | compile-fail | ok <canon> | reject | panic | unparsable-output
func observe(w programWitness) (string, *core.PResult) {
	cfg := core.DefaultCfg()
	cfg.RootType = "Root"
	if w.Cfg != nil {
		cfg = *w.Cfg
	}
	if w.Wire == "Y" {
		cfg.ExtraImports = true
	}
	var schema, doc any
	schema, _ = core.ParseJSON(w.Schema)
	var docs []any
	if len(w.Doc) > 0 {
		doc, _ = core.ParseJSON(w.Doc)
		docs = []any{doc}
	}
	pc := &core.PCase{ID: 0, Cfg: cfg, Schema: schema, Docs: docs, DecodeType: w.Type, Stream: "known-finding"}
	res, batch, err := core.RunPipeline([]*core.PCase{pc})
	if batch != nil {
		batch.Close()
	}
	if err != nil || len(res) == 0 {
		return "pipeline-error " + fmt.Sprint(err), nil
	}
	r := res[0]
	switch {
	case r.Real.Panic != "":
		return "gen-panic", r
	case r.Real.ErrKind != "":
		return "gen-error " + r.Real.ErrKind, r
	case r.Real.ParseErr != "" || r.Real.Unformatted:
		return "unparsable-output", r
	case r.CompileErr != "":
		return "compile-fail", r
	}
	if len(docs) == 0 {
		return "generates", r
	}
	runs := r.RunsJ
	if w.Wire == "Y" {
		runs = r.RunsY
	}
	if len(runs) == 0 {
		return "no-run", r
	}
	switch runs[0].Kind {
	case "ok":
		return "ok " + runs[0].Canon, r
	default:
		return runs[0].Kind, r
	}
}

// knownProgramFindings replays every known finding of kind program-doc recorded for this property.
// open: must still behave as recorded -> KNOWN-FINDING line; if it now behaves as expected it is only noted.
// fixed: must behave as expected; otherwise the violation has returned.
func knownProgramFindings(c *engine.Ctx) {
	for _, k := range c.KnownFor() {
		if k.Kind != "program-doc" {
			continue
		}
		var w programWitness
		if err := json.Unmarshal(k.Witness, &w); err != nil {
			c.Note("known finding %s: bad witness: %v", k.ID, err)
			continue
		}
		got, r := observe(w)
		matches := func(pat string) bool {
			return got == pat || (strings.HasSuffix(pat, "*") && strings.HasPrefix(got, strings.TrimSuffix(pat, "*")))
		}
		c.Count("known-findings", k.Status)
		switch k.Status {
		case "open":
			switch {
			case matches(k.Observed):
				c.ReportKnown(k)
				// the model must predict the recorded behaviour too (invariant 1 on the defect region)
				if r != nil && len(r.Dis) > 0 {
					c.Fail("correspondence", "known finding "+k.ID+": the model no longer mirrors the recorded behaviour: "+clip(fmt.Sprint(r.Dis[0]), 300),
						M{"broken": "known-finding witness " + k.ID, "witness": k.Witness}, true)
				}
			case matches(k.Expected):
				c.Note("known finding %s no longer reproduces: the real code now does what the property demands (%s)", k.ID, got)
			default:
				c.Fail("oracle", fmt.Sprintf("known finding %s changed: recorded %q, property demands %q, real code now does %q", k.ID, k.Observed, k.Expected, got),
					M{"kind": "program-doc", "finding": k.ID, "witness": k.Witness, "now": got}, false)
			}
		case "fixed":
			if !matches(k.Expected) {
				c.Fail("oracle", fmt.Sprintf("fixed finding %s has returned: property demands %q, real code does %q", k.ID, k.Expected, got),
					M{"kind": "program-doc", "finding": k.ID, "witness": k.Witness, "now": got}, false)
			}
		}
	}
}

// pairWitness: two programs that the property says must agree (flag on/off, two spellings, ...).
type pairWitness struct {
	A programWitness `json:"a"`
	B programWitness `json:"b"`
}

func verdictOf(s string) string {
	if len(s) >= 2 && s[:2] == "ok" {
		return "ok"
	}
	return s
}

// knownPairFindings replays findings of kind "program-pair": observed is "<verdictA>/<verdictB>".
func knownPairFindings(c *engine.Ctx) {
	for _, k := range c.KnownFor() {
		if k.Kind != "program-pair" {
			continue
		}
		var w pairWitness
		if err := json.Unmarshal(k.Witness, &w); err != nil {
			c.Note("known finding %s: bad witness: %v", k.ID, err)
			continue
		}
		a, _ := observe(w.A)
		b, _ := observe(w.B)
		got := verdictOf(a) + "/" + verdictOf(b)
		c.Count("known-findings", k.Status)
		same := verdictOf(a) == verdictOf(b) && (verdictOf(a) != "ok" || a == b)
		switch k.Status {
		case "open":
			switch {
			case got == k.Observed:
				c.ReportKnown(k)
			case same:
				c.Note("known finding %s no longer reproduces: both sides now agree (%s)", k.ID, got)
			default:
				c.Fail("oracle", fmt.Sprintf("known finding %s changed: recorded %q, real code now does %q", k.ID, k.Observed, got),
					M{"kind": "program-pair", "finding": k.ID, "witness": k.Witness, "now": got}, false)
			}
		case "fixed":
			if !same {
				c.Fail("oracle", fmt.Sprintf("fixed finding %s has returned: the two programs disagree (%s)", k.ID, got),
					M{"kind": "program-pair", "finding": k.ID, "witness": k.Witness, "now": got}, false)
			}
		}
	}
}

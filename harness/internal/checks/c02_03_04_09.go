package checks

import (
	"encoding/json"
	"fmt"
	"strings"

	"verifharness/internal/core"
	"verifharness/internal/engine"
	"verifharness/internal/sgen"
)

// treeOpts: the fragment the behavioural properties are judged on (no composition, no additional
// properties, no defaults, no formats: those have their own properties and known-finding classes).
func treeOpts() sgen.Opts {
	return sgen.Opts{Defs: true, Nullable: true, Enums: true, Maps: true, MaxDepth: 3, NoNestedLimits: true, NoFormatDefs: true, NoAliasDefs: true}
}

// stripConstraints removes every value constraint (bounds, lengths, patterns, item counts, formats, enums, defaults)
// and keeps types, properties, required, items, $defs and $ref.
func stripConstraints(v any) any { return stripConstraintsKeeping(v, 0) }

// stripConstraintsKeeping: as stripConstraints, but numeric bounds stay from level 1 on, string limits / patterns and
// array item counts from level 2 on.
func stripConstraintsKeeping(v any, keepBounds int) any {
	switch t := v.(type) {
	case sgen.M:
		out := sgen.M{}
		for k, x := range t {
			switch k {
			case "minimum", "maximum", "exclusiveMinimum", "exclusiveMaximum":
				if keepBounds >= 1 {
					out[k] = x
				}
				continue
			case "minLength", "maxLength", "pattern", "minItems", "maxItems":
				if keepBounds >= 2 {
					out[k] = x
				}
				continue
			case "multipleOf", "format", "enum", "default":
				continue
			case "properties", "$defs", "definitions":
				m := sgen.M{}
				if xm, ok := x.(sgen.M); ok {
					for pk, pv := range xm {
						m[pk] = stripConstraintsKeeping(pv, keepBounds)
					}
				}
				out[k] = m
			default:
				out[k] = stripConstraintsKeeping(x, keepBounds)
			}
		}
		if _, typed := out["type"]; !typed {
			if _, isRef := out["$ref"]; !isRef {
				if _, hasProps := out["properties"]; !hasProps {
					out["type"] = "string" // an enum-only node lost its enum
				}
			}
		}
		return out
	case []any:
		o := make([]any, len(t))
		for i, x := range t {
			o[i] = stripConstraintsKeeping(x, keepBounds)
		}
		return o
	}
	return v
}

func certCount(c *engine.Ctx, res []*core.PResult, key string) {
	for _, r := range res {
		if r.Cert != nil {
			c.Count("certificate-"+key, r.Cert[key])
		}
	}
}

// randomTreeCases builds n random in-scope programs; build receives the generator, the schema and a fully
// populated valid base document and returns the documents to run (the base document is always docs[0]).
func randomTreeCases(c *engine.Ctx, stream string, n int, o sgen.Opts, build func(g *sgen.G, root sgen.M, base any) []any) []*core.PCase {
	var out []*core.PCase
	for i := 0; i < n; i++ {
		g := sgen.New(c.R, o)
		root := g.Root("")
		base := g.FullSample(root, 0)
		for tries := 0; containsNull(base) && tries < 20; tries++ {
			// an unsatisfiable sub-schema leaves a hole; null at a non-nullable position is the `null` convention
			root = g.Root("")
			base = g.FullSample(root, 0)
		}
		if containsNull(base) {
			continue
		}
		docs := append([]any{base}, build(g, root, base)...)
		pc := baseCase(stream, root, docs)
		for k, v := range g.Counts {
			if v > 0 {
				c.Count("schema-keywords", k)
			}
		}
		out = append(out, pc)
	}
	return out
}

func init() {
	// ------------------------------------------------------------------ C04
	register("C04", func(c *engine.Ctx) {
		c.Rule = "systematic: one object with 1..3 required keys at root / nested / array element / definition position, every non-empty subset of the required keys removed, plus present-null for nullable and absent optional; systematic over the KIND of the required property (28 kinds: scalars, bounded, nullable, arrays, structs, maps by value type, bare object, enums, formats, any, allOf, anyOf; inline and through a definition) at each of those positions, present / missing; definitions with overlapping required lists shared by several allOf compositions, every single deletion at every composed position; random: structured schemas of the tree fragment (objects, arrays, primitives, enums, nullable, $defs/$ref, depth <= 3), a fully populated valid document, and every single deletion of a required key at every object position. Verdict must equal the reference. Distinct = distinct (stream, verdicts, document shape)."
		c.Proofs([]string{"GJS.Props.C04", "GJS.Props.TreeRejects", "GJS.Proofs.Stable"}, []string{
			"GJS.Props.Tree.tree_rejects_missing_required", "GJS.Props.Tree.tree_rejects_non_object", "GJS.Props.Tree.missing_invalid",
			"GJS.Proofs.decode_stable",
			"GJS.Proofs.fails_not_accepted", "GJS.Props.C04.rejects_missing", "GJS.Props.C04.cert_missing_le", "GJS.Props.C04.cert_rejects_missing",
		})
		var pcs []*core.PCase
		// systematic
		inner := func(req []string) M {
			return M{"type": "object", "properties": M{"a": M{"type": "integer"}, "b": M{"type": []any{"string", "null"}}, "c": M{"type": "boolean"}, "o": M{"type": "string"}}, "required": toAnyS(req)}
		}
		full := M{"a": 1, "b": "x", "c": true, "o": "y"}
		wraps := map[string]func(M) (M, func(any) any){
			"root": func(s M) (M, func(any) any) { return s, func(v any) any { return v } },
			"nested": func(s M) (M, func(any) any) {
				return M{"type": "object", "properties": M{"n": s}, "required": []any{"n"}}, func(v any) any { return M{"n": v} }
			},
			"nested-optional": func(s M) (M, func(any) any) {
				return M{"type": "object", "properties": M{"n": s}}, func(v any) any { return M{"n": v} }
			},
			"element": func(s M) (M, func(any) any) {
				return M{"type": "object", "properties": M{"xs": M{"type": "array", "items": s}}}, func(v any) any { return M{"xs": []any{full, v}} }
			},
			"definition": func(s M) (M, func(any) any) {
				return M{"type": "object", "properties": M{"d": M{"$ref": "#/$defs/D"}}, "required": []any{"d"}, "$defs": M{"D": s}}, func(v any) any { return M{"d": v} }
			},
			"definition-element": func(s M) (M, func(any) any) {
				return M{"type": "object", "properties": M{"xs": M{"type": "array", "items": M{"$ref": "#/$defs/D"}}}, "$defs": M{"D": s}}, func(v any) any { return M{"xs": []any{v}} }
			},
			"deep": func(s M) (M, func(any) any) {
				l2 := M{"type": "object", "properties": M{"m": s}, "required": []any{"m"}}
				return M{"type": "object", "properties": M{"n": M{"type": "array", "items": l2}}}, func(v any) any { return M{"n": []any{M{"m": v}}} }
			},
		}
		for _, wname := range core.SortedKeys(wraps) {
			for _, req := range [][]string{{"a"}, {"a", "b"}, {"a", "b", "c"}, {"b"}} {
				schema, mk := wraps[wname](inner(req))
				var docs []any
				docs = append(docs, mk(sgen.DeepCopy(full)))
				for mask := 1; mask < 1<<len(req); mask++ {
					d := sgen.DeepCopy(full).(M)
					for i, k := range req {
						if mask&(1<<i) != 0 {
							delete(d, k)
						}
					}
					docs = append(docs, mk(d))
				}
				dn := sgen.DeepCopy(full).(M)
				dn["b"] = nil // present, null, nullable: satisfies `required`
				docs = append(docs, mk(dn))
				do := sgen.DeepCopy(full).(M)
				delete(do, "o") // optional absent
				docs = append(docs, mk(do))
				pcs = append(pcs, baseCase("c04-systematic", schema, docs, wname, fmt.Sprintf("req=%d", len(req))))
			}
		}
		// systematic over the KIND of the required property (the generator chooses field type, default handling
		// and pointer wrapping by kind): each kind, required, at every wrap position; documents: present / missing
		reqKinds := map[string]struct {
			schema M
			val    any
		}{
			"integer": {M{"type": "integer"}, 3}, "number": {M{"type": "number"}, 1.5}, "string": {M{"type": "string"}, "s"}, "boolean": {M{"type": "boolean"}, false},
			"int-bounded": {M{"type": "integer", "minimum": 1}, 3}, "str-len": {M{"type": "string", "minLength": 1}, "s"},
			"nullable-int": {M{"type": []any{"integer", "null"}}, 2}, "array": {M{"type": "array", "items": M{"type": "integer"}}, []any{1}},
			"array-of-arrays": {M{"type": "array", "items": M{"type": "array", "items": M{"type": "string"}}}, []any{[]any{"x"}}},
			"struct":          {M{"type": "object", "properties": M{"p": M{"type": "integer"}}}, M{"p": 1}},
			"struct-req":      {M{"type": "object", "properties": M{"p": M{"type": "integer"}}, "required": []any{"p"}}, M{"p": 1}},
			"map-int":         {M{"type": "object", "additionalProperties": M{"type": "integer"}}, M{"k": 1}}, "map-string": {M{"type": "object", "additionalProperties": M{"type": "string"}}, M{"k": "v"}},
			"map-number": {M{"type": "object", "additionalProperties": M{"type": "number"}}, M{}}, "map-bool": {M{"type": "object", "additionalProperties": M{"type": "boolean"}}, M{"k": true}},
			"map-array":  {M{"type": "object", "additionalProperties": M{"type": "array", "items": M{"type": "string"}}}, M{"k": []any{"a"}}},
			"map-struct": {M{"type": "object", "additionalProperties": M{"type": "object", "properties": M{"p": M{"type": "integer"}}}}, M{"k": M{"p": 1}}},
			"map-any":    {M{"type": "object", "additionalProperties": true}, M{"k": 1}}, "object-bare": {M{"type": "object"}, M{"k": 1}},
			"struct-addl": {M{"type": "object", "properties": M{"p": M{"type": "integer"}}, "additionalProperties": M{"type": "string"}}, M{"p": 1, "q": "x"}},
			"enum-str":    {M{"type": "string", "enum": []any{"a", "b"}}, "a"}, "enum-int": {M{"type": "integer", "enum": []any{1, 2}}, 2}, "enum-untyped": {M{"enum": []any{"a", 1}}, 1},
			"fmt-date": {M{"type": "string", "format": "date"}, "2020-01-02"}, "fmt-ipv4": {M{"type": "string", "format": "ipv4"}, "1.2.3.4"},
			"any": {M{}, 1}, "allOf": {M{"allOf": []any{M{"type": "object", "properties": M{"p": M{"type": "integer"}}}, M{"type": "object", "properties": M{"q": M{"type": "string"}}}}}, M{"p": 1, "q": "x"}},
			"anyOf": {M{"anyOf": []any{M{"type": "object", "properties": M{"p": M{"type": "integer"}}, "required": []any{"p"}}, M{"type": "object", "properties": M{"q": M{"type": "string"}}, "required": []any{"q"}}}}, M{"p": 1}},
		}
		for _, kname := range core.SortedKeys(reqKinds) {
			k := reqKinds[kname]
			for _, wname := range core.SortedKeys(wraps) {
				for _, viaDef := range []bool{false, true} {
					in := M{"type": "object", "properties": M{"k": sgen.DeepCopy(k.schema), "o": M{"type": "string"}}, "required": []any{"k"}}
					schema, mk := wraps[wname](in)
					if viaDef {
						// a format-typed string as a definition is the listed finding K-named-format-definition (C02)
						if _, has := schema["$defs"]; has || strings.HasPrefix(kname, "fmt-") {
							continue
						}
						in["properties"].(M)["k"] = M{"$ref": "#/$defs/K"}
						schema["$defs"] = M{"K": sgen.DeepCopy(k.schema)}
					}
					docs := []any{mk(M{"k": k.val, "o": "y"}), mk(M{"o": "y"}), mk(M{})}
					pcs = append(pcs, baseCase("c04-kinds", schema, docs, kname, wname, fmt.Sprint(viaDef)))
				}
			}
		}
		// same-named nodes that differ in one keyword around `required` (see neardup.go): each position keeps its own
		// presence checks
		for _, pc := range nearDupCases(c, "c04-near-duplicates") {
			if strings.Contains(pc.Labels[0], "required") {
				pcs = append(pcs, pc)
			}
		}
		// required keys of definitions that several allOf compositions share (every single deletion)
		pcs = append(pcs, sharedDefinitionCases(c, "c04-shared-definitions")...)
		// required names with characters that mean something to a format string, a template or a tag
		pcs = append(pcs, requiredPunctuatedNames("c04-punctuated-names", false)...)
		// allOf whose branches state `type` in some places only, in every ORDER (a bare {"required": […]} or a property-only
		// branch first, the typed branch or the reference later, and the other way round; two or three branches)
		{
			base := func() M {
				return M{"type": "object", "properties": M{"a": M{"type": "string"}, "x": M{"type": "string"}}, "required": []any{"a"}}
			}
			branchSets := map[string][]any{
				"req-then-ref":        {M{"required": []any{"x"}}, M{"$ref": "#/$defs/Base"}},
				"ref-then-req":        {M{"$ref": "#/$defs/Base"}, M{"required": []any{"x"}}},
				"props-then-typed":    {M{"properties": M{"y": M{"type": "integer"}}, "required": []any{"y"}}, M{"type": "object", "properties": M{"a": M{"type": "string"}}, "required": []any{"a"}}},
				"typed-then-props":    {M{"type": "object", "properties": M{"a": M{"type": "string"}}, "required": []any{"a"}}, M{"properties": M{"y": M{"type": "integer"}}, "required": []any{"y"}}},
				"req-ref-req":         {M{"required": []any{"x"}}, M{"$ref": "#/$defs/Base"}, M{"required": []any{"a"}}},
				"untyped-ref-untyped": {M{"properties": M{"y": M{"type": "integer"}}}, M{"$ref": "#/$defs/Base"}, M{"required": []any{"y"}}},
			}
			for _, bn := range core.SortedKeys(branchSets) {
				for _, pos := range []string{"member", "required-member", "items"} {
					node := M{"allOf": sgen.DeepCopy(branchSets[bn])}
					schema := M{"type": "object", "$defs": M{"Base": base()}, "properties": M{"first": node, "n": M{"type": "string"}}}
					wrap := func(v any) any { return M{"first": v} }
					switch pos {
					case "required-member":
						schema["required"] = []any{"first"}
					case "items":
						schema["properties"] = M{"first": M{"type": "array", "items": node}}
						wrap = func(v any) any { return M{"first": []any{v}} }
					}
					full := M{"a": "1", "x": "2", "y": 3}
					docs := []any{wrap(full), wrap(M{"a": "1", "y": 3}), wrap(M{"x": "2", "y": 3}), wrap(M{"a": "1", "x": "2"}), wrap(M{})}
					pcs = append(pcs, baseCase("c04-nested-compositions", schema, docs, "allOf-branch-order", bn, pos))
				}
			}
		}
		// compositions NESTED in compositions over the SAME definition (a member of an allOf type is again an allOf with
		// that definition — directly, two levels down, or through a definition that sorts later): the inner position
		// keeps every presence check, of the definition and of its own branch
		{
			person := func() M {
				return M{"type": "object", "properties": M{"name": M{"type": "string"}, "email": M{"type": "string"}}, "required": []any{"name"}}
			}
			inner := func(extra M) M {
				return M{"allOf": []any{M{"$ref": "#/$defs/Person"}, extra}}
			}
			lvl := M{"type": "object", "properties": M{"level": M{"type": "integer"}}, "required": []any{"email", "level"}}
			mgr := M{"name": "b", "email": "e", "level": 1}
			del := func(doc M, path ...string) M {
				d := sgen.DeepCopy(doc).(M)
				cur := d
				for _, k := range path[:len(path)-1] {
					cur = cur[k].(M)
				}
				delete(cur, path[len(path)-1])
				return d
			}
			// (a) directly nested
			sa := M{"type": "object", "$defs": M{"Person": person()}, "required": []any{"employee"}, "properties": M{
				"employee": inner(M{"type": "object", "properties": M{"manager": inner(sgen.DeepCopy(lvl).(M))}, "required": []any{"manager"}})}}
			da := M{"employee": M{"name": "a", "manager": sgen.DeepCopy(mgr)}}
			pcs = append(pcs, baseCase("c04-nested-compositions", sa, []any{da, del(da, "employee", "name"), del(da, "employee", "manager"),
				del(da, "employee", "manager", "name"), del(da, "employee", "manager", "email"), del(da, "employee", "manager", "level"), M{"employee": M{"name": "a", "manager": M{}}}}, "direct"))
			// (b) two levels down
			sb := M{"type": "object", "$defs": M{"Person": person()}, "properties": M{
				"employee": inner(M{"type": "object", "properties": M{"manager": inner(M{"type": "object", "properties": M{"boss": inner(sgen.DeepCopy(lvl).(M))}, "required": []any{"boss"}})}})}}
			db := M{"employee": M{"name": "a", "manager": M{"name": "m", "boss": sgen.DeepCopy(mgr)}}}
			pcs = append(pcs, baseCase("c04-nested-compositions", sb, []any{db, del(db, "employee", "manager", "name"), del(db, "employee", "manager", "boss"),
				del(db, "employee", "manager", "boss", "name"), del(db, "employee", "manager", "boss", "email"), del(db, "employee", "manager", "boss", "level")}, "two-levels"))
			// (c) through a definition that sorts after the referring one
			sc := M{"type": "object", "$defs": M{"Person": person(),
				"Alpha": M{"type": "object", "properties": M{"boss": inner(M{"type": "object", "properties": M{"peer": M{"$ref": "#/$defs/Zeta"}}})}},
				"Zeta":  M{"type": "object", "properties": M{"who": inner(M{"required": []any{"email"}})}, "required": []any{"who"}}},
				"properties": M{"zeta": M{"$ref": "#/$defs/Zeta"}, "alpha": M{"$ref": "#/$defs/Alpha"}}}
			dc := M{"zeta": M{"who": M{"name": "n", "email": "e"}}, "alpha": M{"boss": M{"name": "x", "peer": M{"who": M{"name": "n", "email": "e"}}}}}
			pcs = append(pcs, baseCase("c04-nested-compositions", sc, []any{dc, del(dc, "zeta", "who", "email"), del(dc, "zeta", "who", "name"), del(dc, "zeta", "who"),
				del(dc, "alpha", "boss", "peer", "who", "email"), del(dc, "alpha", "boss", "name")}, "through-later-definition"))
		}
		// random
		pcs = append(pcs, randomTreeCases(c, "c04-random", c.N(250, 4000), treeOpts(), func(g *sgen.G, root sgen.M, base any) []any {
			var docs []any
			for _, p := range g.Positions(root, base) {
				if p.InArrayDef || len(p.Required) == 0 {
					continue
				}
				props, _ := p.Schema["properties"].(M)
				for _, k := range p.Required {
					ps, declared := props[k].(M)
					if !declared {
						continue
					}
					if _, hasDef := ps["default"]; hasDef {
						continue
					}
					docs = append(docs, sgen.SetAt(base, append(append([]any(nil), p.Path...), k), nil, true))
				}
			}
			return docs
		})...)
		// next to "$defs", a stale legacy "definitions" block with the same names must not change anything
		pcs = append(pcs, staleDefinitionVariants(pcs, c.N(80, 800))...)
		res := runCases(c, pcs)
		fails := verdictOracle(c, res, "required property", func(r *core.PResult, i int) bool {
			// a required property WITH a default is filled, not demanded (the generator's stated convention; out of
			// scope F04): skip a near-duplicate document that omits such a key
			if r.Case.Stream != "c04-near-duplicates" {
				return false
			}
			root, _ := r.Case.Schema.(sgen.M)
			doc, _ := r.Case.Docs[i].(M)
			props, _ := root["properties"].(sgen.M)
			for k, ps := range props {
				node, _ := ps.(sgen.M)
				if ref, ok := node["$ref"].(string); ok {
					if defs, ok := root["$defs"].(sgen.M); ok {
						node, _ = defs[ref[strings.LastIndex(ref, "/")+1:]].(sgen.M)
					}
				}
				if it, ok := node["items"].(sgen.M); ok {
					node = it
				}
				tp, _ := node["properties"].(sgen.M)
				t, _ := tp["t"].(sgen.M)
				_, hasDefault := t["default"]
				if bs, ok := node["allOf"].([]any); ok {
					// (the "after-shared-definition" way: the member sits in an inline allOf branch)
					for _, b := range bs {
						if bm, ok := b.(sgen.M); ok {
							if bp, ok := bm["properties"].(sgen.M); ok {
								if bt, ok := bp["t"].(sgen.M); ok {
									if _, d := bt["default"]; d {
										hasDefault = true
									}
								}
							}
						}
					}
				}
				if !hasDefault {
					continue
				}
				var vals []any
				switch v := doc[k].(type) {
				case M:
					vals = []any{v}
				case []any:
					vals = v
				}
				for _, v := range vals {
					if m, ok := v.(M); ok {
						if _, present := m["t"]; !present {
							return true
						}
					}
				}
			}
			return false
		})
		severalPackages(c, &fails)
		certCount(c, res, "req")
		for _, r := range res {
			if len(c.Samples) < 6 && len(r.DocJSON) > 1 {
				c.Sample(M{"schema": clip(string(r.SchemaJSON), 400), "doc": r.DocJSON[1], "stream": r.Case.Stream})
			}
		}
		breaks(c, res, map[string]bool{"run-json": true, "gen": true, "compile": true}, fails > 0)
		knownProgramFindings(c)
	})

	// ------------------------------------------------------------------ C03
	register("C03", func(c *engine.Ctx) {
		c.Rule = "random structured schemas of the tree fragment; a fully populated valid document; at every typed position (single type or [T,null], reached through properties, array items and $ref) the value is replaced by a value of every other JSON type (string, integer, non-integral number, boolean, array, object) and, where null is allowed, by null; plus typed positions built by composition (allOf / anyOf over object branches typed object, [object,null] or [null,object], inline or by $ref) with wrong-typed values for the whole position and for a member; plus two documents that define Base.id with different types and compose it by the same reference text (allOf / anyOf / plain, with and without $id), every ordered pair of five types; plus one schema (typed members at the top, nested, in array items) with every property name replaced by a word of each of 14 scripts (cased and caseless), documents renamed alike, judged by the reference verdict of the ASCII spelling. Verdict must equal the reference. Distinct = distinct (position type, substituted type, verdicts)."
		c.Proofs([]string{"GJS.Props.C03", "GJS.Props.TreeRejects", "GJS.Proofs.Stable", "GJS.Props.StringFormats"}, []string{
			"GJS.Props.StringFormats.stringType_top", "GJS.Props.StringFormats.stringType_other", "GJS.Props.StringFormats.formatted_string_rejects_non_string", "GJS.Props.StringFormats.formatted_string_rejects_non_string_ptr", "GJS.Props.StringFormats.table_is_the_source_table", "GJS.Props.StringFormats.table_entries_are_library_types",
			"GJS.Props.Tree.tree_rejects_wrong_type", "GJS.Props.Tree.wrong_type_invalid",
			"GJS.Proofs.decode_stable",
			"GJS.Proofs.fails_not_accepted", "GJS.Props.C03.top_mismatch", "GJS.Props.C03.cert_wrong_type_le",
			"GJS.Props.C03.cert_rejects_wrong_type", "GJS.Props.C03.null_into_pointer", "GJS.Props.C03.fraction_into_int_fails",
		})
		factsOf(c, "stringFormats")
		subst := map[string]any{"string": "s", "integer": 7, "number": 1.5, "boolean": true, "array": []any{}, "object": M{}}
		// typed positions built by composition: allOf / anyOf over object branches, plain or nullable in either
		// spelling of the type list, inline or by $ref; wrong-typed values for the whole position and for a member
		var composed []*core.PCase
		for _, kw := range []string{"allOf", "anyOf"} {
			for _, ty := range []any{"object", []any{"object", "null"}, []any{"null", "object"}} {
				for _, viaRef := range []bool{false, true} {
					b0 := M{"type": ty, "properties": M{"port": M{"type": "integer"}}, "required": []any{"port"}}
					b1 := M{"properties": M{"tls": M{"type": "boolean"}}}
					if kw == "anyOf" {
						b1 = M{"type": ty, "properties": M{"url": M{"type": "string"}}, "required": []any{"url"}}
					}
					schema := M{"type": "object"}
					var first any = b0
					if viaRef {
						schema["$defs"] = M{"Endpoint": b0}
						first = M{"$ref": "#/$defs/Endpoint"}
					}
					schema["properties"] = M{"up": M{kw: []any{first, b1}}}
					docs := []any{M{"up": M{"port": 80}}, M{"up": M{"port": "eighty"}}, M{"up": M{"port": 80.5}}, M{"up": M{"port": true}}, M{"up": M{"port": []any{}}},
						M{"up": 42}, M{"up": "s"}, M{"up": []any{1}}, M{"up": true}}
					if kw == "allOf" {
						docs = append(docs, M{"up": M{"port": 80, "tls": "yes"}}, M{"up": M{"port": 80, "tls": true}})
					} else {
						docs = append(docs, M{"up": M{"url": 7}}, M{"up": M{"url": "u"}})
					}
					composed = append(composed, baseCase("c03-composed", schema, docs, kw, fmt.Sprint(ty), fmt.Sprintf("ref=%v", viaRef)))
				}
			}
		}
		// typed positions built by composition over ARRAY (and scalar) branches: the position holds an array of the stated
		// element type whichever way it is spelled; wrong-typed values for the position and for an element
		arrOf := func(t string) M { return M{"type": "array", "items": M{"type": t}} }
		for ai, a := range []struct {
			name string
			pos  func() M
			defs M
			elem string
		}{
			{"anyOf-array-or-null", func() M { return M{"anyOf": []any{arrOf("string"), M{"type": "null"}}} }, nil, "string"},
			{"allOf-single-ref-to-array", func() M { return M{"allOf": []any{M{"$ref": "#/$defs/Names"}}} }, M{"Names": arrOf("string")}, "string"},
			{"allOf-array-plus-limit", func() M { return M{"allOf": []any{arrOf("integer"), M{"minItems": 1}}} }, nil, "integer"},
			{"anyOf-two-arrays", func() M {
				return M{"anyOf": []any{arrOf("integer"), M{"type": "array", "items": M{"type": "integer"}, "maxItems": 3}}}
			}, nil, "integer"},
			{"allOf-ref-plus-limit", func() M { return M{"allOf": []any{M{"$ref": "#/$defs/Names"}, M{"maxItems": 4}}} }, M{"Names": arrOf("boolean")}, "boolean"},
			{"anyOf-ref-or-null", func() M { return M{"anyOf": []any{M{"$ref": "#/$defs/Names"}, M{"type": "null"}}} }, M{"Names": arrOf("number")}, "number"},
		} {
			for _, required := range []bool{false, true} {
				schema := M{"type": "object", "properties": M{"v": a.pos(), "n": M{"type": "string"}}}
				if a.defs != nil {
					schema["$defs"] = sgen.DeepCopy(a.defs)
				}
				if required {
					schema["required"] = []any{"v"}
				}
				good := subst[a.elem]
				docs := []any{M{"v": []any{good}}, M{"v": []any{good, good}}, M{"v": 5}, M{"v": "s"}, M{"v": true}, M{"v": M{"k": 1}}, M{"v": 1.5}}
				for _, jt := range []string{"string", "integer", "boolean", "object", "array"} {
					if jt != a.elem && !(a.elem == "number" && jt == "integer") {
						docs = append(docs, M{"v": []any{good, subst[jt]}})
					}
				}
				composed = append(composed, baseCase("c03-composed", schema, docs, "array-branches", a.name, fmt.Sprintf("required=%v #%d", required, ai)))
			}
		}
		// arrays whose items are `null`-typed, with and without item counts, flat and nested: every element must be null
		for ni, nsch := range []M{
			{"type": "array", "items": M{"type": "null"}},
			{"type": "array", "items": M{"type": "null"}, "minItems": 1, "maxItems": 3},
			{"type": "array", "items": M{"type": "null"}, "maxItems": 2},
			{"type": "array", "items": M{"type": "array", "items": M{"type": "null"}}, "maxItems": 2},
			{"type": "array", "items": M{"type": "array", "items": M{"type": "null"}, "minItems": 1}},
		} {
			for _, required := range []bool{false, true} {
				schema := M{"type": "object", "properties": M{"v": sgen.DeepCopy(nsch), "n": M{"type": "string"}}}
				if required {
					schema["required"] = []any{"v"}
				}
				var docs []any
				if ni < 3 {
					docs = []any{M{"v": []any{nil}}, M{"v": []any{nil, nil}}, M{"v": []any{1}}, M{"v": []any{nil, "x"}}, M{"v": []any{M{}}}, M{"v": []any{[]any{}}}, M{"v": []any{false}}, M{"v": "s"}}
				} else {
					// (a null where an inner ARRAY is expected is the null convention, DESIGN 1.3: left out)
					docs = []any{M{"v": []any{[]any{nil}}}, M{"v": []any{[]any{nil}, []any{7}}}, M{"v": []any{[]any{nil, "x"}}}, M{"v": []any{[]any{true}}}, M{"v": []any{1}}}
				}
				composed = append(composed, baseCase("c03-composed", schema, docs, "arrays-of-nulls", fmt.Sprintf("#%d required=%v", ni, required)))
			}
		}
		// strings with a `format` (every name of the specification's vocabulary, the OpenAPI ones, and unknown ones), as a
		// member, as array items, through a definition and as a map's value type: whatever the format means for the Go type,
		// only a JSON string is admitted — not an array of small integers, not a number, not a boolean
		for _, f := range []struct{ name, ok string }{
			{"date", "2020-01-02"}, {"date-time", "2020-01-02T03:04:05Z"}, {"time", "03:04:05"}, {"duration", "PT1H"}, {"ipv4", "1.2.3.4"}, {"ipv6", "::1"},
			{"email", "a@b.c"}, {"idn-email", "a@b.c"}, {"hostname", "h.example"}, {"idn-hostname", "h.example"}, {"uri", "urn:x"}, {"uri-reference", "x"},
			{"iri", "urn:x"}, {"iri-reference", "x"}, {"uuid", "123e4567-e89b-12d3-a456-426614174000"}, {"uri-template", "/x"}, {"json-pointer", "/a"},
			{"relative-json-pointer", "0/a"}, {"regex", "a*"}, {"byte", "aGk="}, {"binary", "aGk="}, {"password", "aGk="}, {"base64", "aGk="}, {"bytes", "aGk="},
			{"int32", "1"}, {"int64", "1"}, {"float", "1"}, {"double", "1"}, {"char", "c"}, {"rune", "r"}, {"hex", "ff"}, {"color", "#fff"}, {"phone", "1"}, {"my-own", "x"},
		} {
			for pi, pos := range []string{"member", "items", "definition", "map-value"} {
				str := M{"type": "string", "format": f.name}
				var schema M
				var wrap func(any) any
				if pos == "definition" && (f.name == "date" || f.name == "date-time" || f.name == "time" || f.name == "duration" || f.name == "ipv4" || f.name == "ipv6") {
					// listed finding K-named-format-definition (C02, C03): a definition over a format with a library type is declared as a
					// new defined type, which loses that type's methods — valid strings are rejected, objects accepted
					continue
				}
				switch pos {
				case "member":
					schema, wrap = M{"type": "object", "properties": M{"v": str}}, func(v any) any { return M{"v": v} }
				case "items":
					schema, wrap = M{"type": "object", "properties": M{"v": M{"type": "array", "items": str}}}, func(v any) any { return M{"v": []any{v}} }
				case "definition":
					schema, wrap = M{"type": "object", "properties": M{"v": M{"$ref": "#/$defs/F"}}, "required": []any{"v"}, "$defs": M{"F": str}}, func(v any) any { return M{"v": v} }
				case "map-value":
					schema, wrap = M{"type": "object", "properties": M{"v": M{"type": "object", "additionalProperties": str}}}, func(v any) any { return M{"v": M{"k": v}} }
				}
				docs := []any{wrap(f.ok)}
				for _, v := range []any{[]any{104, 105}, []any{1, 2, 3}, []any{}, []any{"a"}, 5, 1.5, true, M{}, M{"a": 1}} {
					docs = append(docs, wrap(v))
				}
				composed = append(composed, baseCase("c03-composed", schema, docs, "string-formats", f.name, fmt.Sprintf("%s #%d", pos, pi)))
			}
		}
		// keywords that are PRESENT WITH AN EMPTY VALUE next to a typed additionalProperties (properties: {}, required: [],
		// definitions: {}): an object without declared members is a typed map whatever else is spelled out emptily
		for _, at := range []M{{"type": "object"}, {"type": "array", "items": M{"type": "string"}}, {"type": "integer"}, {"type": "string"}, {"type": "boolean"}, {"type": "number"}} {
			for ei, empties := range []M{{}, {"properties": M{}}, {"required": []any{}}, {"properties": M{}, "required": []any{}}, {"properties": M{}, "$defs": M{}}} {
				for _, viaRef := range []bool{false, true} {
					node := M{"type": "object", "additionalProperties": at}
					for k, v := range empties {
						node[k] = v
					}
					schema := M{"type": "object", "properties": M{"meta": node}}
					if viaRef {
						schema = M{"type": "object", "properties": M{"meta": M{"$ref": "#/$defs/Meta"}}, "$defs": M{"Meta": node}}
					}
					var docs []any
					for _, v := range []any{"oops", 7, 1.5, true, []any{"a", 7}, []any{"a"}, M{"x": 1}, M{}} {
						docs = append(docs, M{"meta": M{"k": v}})
					}
					docs = append(docs, M{"meta": M{}}, M{"meta": 5}, M{})
					composed = append(composed, baseCase("c03-composed", schema, docs, "typed-map-with-empty-keywords", fmt.Sprint(at["type"]), fmt.Sprintf("empties=%d ref=%v", ei, viaRef)))
				}
			}
		}
		o3 := treeOpts()
		o3.Formats = true // format-typed strings, and `format` as a mere annotation on integers / numbers / booleans
		pcs := randomTreeCases(c, "c03-random", c.N(250, 4000), o3, func(g *sgen.G, root sgen.M, base any) []any {
			var docs []any
			for _, p := range g.Positions(root, base) {
				if len(p.Path) == 0 {
					continue
				}
				T := ""
				switch t := p.Schema["type"].(type) {
				case string:
					T = t
				case []any:
					if len(t) == 2 {
						for _, x := range t {
							if x != "null" {
								T = x.(string)
							}
						}
					}
				}
				if T == "" {
					continue
				}
				for _, jt := range []string{"string", "integer", "number", "boolean", "array", "object"} {
					if jt == T || (T == "number" && jt == "integer") {
						continue
					}
					docs = append(docs, sgen.SetAt(base, p.Path, subst[jt], false))
					c.Count("substitution", T+"<-"+jt)
				}
				if _, isEnum := p.Schema["enum"]; p.Nullable && !isEnum {
					// (null at a nullable typed enum whose list lacks null is known finding K-nullable-enum-null, C08)
					docs = append(docs, sgen.SetAt(base, p.Path, nil, false))
					c.Count("substitution", T+"<-null(allowed)")
				}
			}
			if len(docs) > 60 {
				core.Shuffle(c.R, docs)
				docs = docs[:60]
			}
			return docs
		})
		pcs = append(pcs, composed...)
		// next to "$defs", a stale legacy "definitions" block with the same names must not change anything
		pcs = append(pcs, staleDefinitionVariants(pcs, c.N(80, 800))...)
		res := runCases(c, pcs)
		fails := verdictOracle(c, res, "wrong JSON type", func(r *core.PResult, i int) bool {
			// C03 claims rejection of WRONGLY TYPED values.  A document of the random stream that the reference calls invalid
			// although every value has the JSON type its position states (a required key missing inside the elements of a
			// declared array type — listed finding K20 —, a bound) is not this property's business; model and real code must
			// still agree on it (correspondence below)
			if r.Case.Stream != "c03-random" || i >= len(r.ModelRuns) || r.ModelRuns[i].Spec != "invalid" || r.RunsJ[i].Kind != "ok" || !strings.HasPrefix(r.ModelRuns[i].J, "ok") {
				return false
			}
			root, ok := r.Case.Schema.(sgen.M)
			return ok && i < len(r.Case.Docs) && typesAllMatch(root, root, r.Case.Docs[i], 0)
		})
		fails += typedDefsAcrossFiles(c)
		fails += renamedKeysAcrossScripts(c)
		certCount(c, res, "type")
		for _, r := range res {
			if len(c.Samples) < 6 && len(r.DocJSON) > 1 {
				c.Sample(M{"schema": clip(string(r.SchemaJSON), 400), "doc": r.DocJSON[1]})
			}
		}
		breaks(c, res, map[string]bool{"run-json": true, "gen": true, "compile": true}, fails > 0)
		c.FactsVerdict(fails > 0)
		knownProgramFindings(c)
	})

	// ------------------------------------------------------------------ C02
	register("C02", func(c *engine.Ctx) {
		c.Rule = "random structured schemas (tree fragment, plus formats) with schema-directed VALID documents (boundary values of every constraint, optional properties present or absent, null where allowed, nested objects and arrays), a third of the programs also generated with --min-sized-ints and bounds near the integer type limits; every document the reference calls valid must be accepted and every non-empty declared value must re-appear unchanged, at the same place, in json.Marshal of the decoded value. Near-duplicates: pairs of schema nodes whose Go type names collide (sibling properties, definitions, definition vs property, array items) and whose schemas differ in exactly one keyword (24 perturbations: format, type, each bound, required, enum members, items, default, nullable, annotation only, identical), both orders, documents valid for the one and for the other at both positions. The broad random stream (all features, mutated documents) additionally ties model and implementation. Distinct = distinct (stream, verdicts, document shape)."
		c.Proofs([]string{"GJS.Props.C02", "GJS.Props.Whole", "GJS.Props.Exact", "GJS.Proofs.SpecMono", "GJS.Proofs.Mono", "GJS.Proofs.Stable", "GJS.Props.FlatGen", "GJS.Props.FlatExact", "GJS.Props.TreeGen", "GJS.Props.TreeExact"}, []string{
			"GJS.Props.Tree.run_tree", "GJS.Props.Tree.tree_end_to_end", "GJS.Props.Tree.tree_end_to_end_yaml", "GJS.Props.Tree.tree_end_to_end_checked", "GJS.Props.Tree.treeFullB_sound", "GJS.Props.Tree.certAll_tree", "GJS.Props.Tree.certCov_tree", "GJS.Props.Tree.declared_step", "GJS.Props.Tree.fieldsT",
			"GJS.Props.Flat.flat_end_to_end_full", "GJS.Props.Flat.flat_end_to_end_full_checked", "GJS.Props.Flat.flatFullB_sound", "GJS.Props.Flat.run_flat_gen",
			"GJS.Props.Flat.run_flat", "GJS.Props.Flat.flat_end_to_end", "GJS.Props.Flat.flat_end_to_end_yaml", "GJS.Props.Flat.flat_end_to_end_checked", "GJS.Props.Flat.flatPlainB_sound", "GJS.Props.Flat.certAll_root", "GJS.Props.Flat.certCov_root", "GJS.Props.Flat.fields_flat", "GJS.Props.Flat.loop_flat", "GJS.Props.Flat.declared_flat",
			"GJS.Props.C02.certShape_accepts", "GJS.Props.C02.certified_exact_on_shape", "GJS.Props.C02.certFull_accepts", "GJS.Props.C02.certAll_accepts", "GJS.Props.C02.certSound", "GJS.Props.C02.certified_exact", "GJS.Spec.valid_mono", "GJS.Props.C02.valid_split", "GJS.Props.C02.num_check_iff", "GJS.Props.C02.str_check_iff", "GJS.Props.C02.arr_check_eq", "GJS.Props.C02.str_decode_passes", "GJS.Props.C02.arr_decode_passes", "GJS.Props.C02.decodeStruct_field", "GJS.Props.C02.num_decode_passes", "GJS.Props.C02.acc_map_iff",
			"GJS.Proofs.decode_err_mono", "GJS.Proofs.decode_stable",
			"GJS.Props.C02.prim_roundtrip", "GJS.Props.C02.validators_only_reject_on_constraints", "GJS.Props.C02.unmarshal_accept_stable",
			"GJS.Props.C02.rejected_forever_not_accepted", "GJS.Proofs.decode_ok_mono", "GJS.Proofs.okMono",
			"GJS.Props.C02.numeric_accepts_valid_float", "GJS.Props.C02.string_accepts_valid_ascii", "GJS.Props.C02.array_accepts_valid",

			"GJS.Props.C02.runAfter_ok_iff", "GJS.Props.C02.runBefore_ok_iff", "GJS.Props.C02.struct_method_ok_iff", "GJS.Props.C02.accepted_passes_every_check",
			"GJS.Props.C02.acc_slice_iff", "GJS.Props.C02.acc_struct_iff", "GJS.Props.C02.acc_ptr_iff", "GJS.Props.C02.acc_named_iff",
			"GJS.Props.C02.acc_string_iff", "GJS.Props.C02.acc_bool_iff", "GJS.Props.C02.acc_float_iff", "GJS.Props.C02.acc_int_iff",
		})
		o := treeOpts()
		o.Formats = true
		var pcs []*core.PCase
		for i := 0; i < c.N(250, 4000); i++ {
			g := sgen.New(c.R, o)
			root := g.Root("")
			docs := []any{g.FullSample(root, 0)}
			for k := 0; k < 10; k++ {
				docs = append(docs, g.Sample(root, 0))
			}
			pc := baseCase("c02-valid", root, docs)
			pcs = append(pcs, pc)
			if i%3 == 0 {
				// the same valid documents under --min-sized-ints, with bounds near the integer type limits (no enums: the
				// integer-enum carrier under the flag is the listed finding K23)
				om := o
				om.BigInts, om.Enums = true, false
				gm := sgen.New(c.R, om)
				rootM := gm.Root("")
				docsM := []any{gm.FullSample(rootM, 0)}
				for k := 0; k < 10; k++ {
					docsM = append(docsM, gm.Sample(rootM, 0))
				}
				pm := baseCase("c02-valid", rootM, docsM, "min-sized-ints")
				pm.Cfg.MinSizedInts = true
				pcs = append(pcs, pm)
			}
		}
		// broad correspondence stream
		ao := sgen.AllOpts()
		for i := 0; i < c.N(250, 4000); i++ {
			g := sgen.New(c.R, ao)
			root := g.Root("")
			pcs = append(pcs, baseCase("c02-broad", root, g.Docs(root, 12)))
		}
		// near-duplicate schemas under one Go type name (see neardup.go)
		pcs = append(pcs, nearDupCases(c, "c02-near-duplicates")...)
		// the helper types behind the string formats: extreme and ordinary texts (first and last representable day, leap
		// day, midnight, the zero instant, the all-zero and all-one addresses) as a required member, an optional member,
		// array items and map values: accepted and re-marshalled unchanged
		fmtVals := map[string][]any{
			"date":      {"0001-01-01", "1970-01-01", "2024-02-29", "9999-12-31", "2000-01-01"},
			"time":      {"00:00:00", "12:00:00", "23:59:59", "00:00:01"},
			"date-time": {"0001-01-01T00:00:00Z", "1970-01-01T00:00:00Z", "2024-02-29T12:30:00Z", "9999-12-31T23:59:59Z"},
			"ipv4":      {"0.0.0.0", "127.0.0.1", "255.255.255.255"},
			"ipv6":      {"::", "::1", "ffff:ffff:ffff:ffff:ffff:ffff:ffff:ffff", "2001:db8::1"},
		}
		for _, f := range core.SortedKeys(fmtVals) {
			node := func() sgen.M { return sgen.M{"type": "string", "format": f} }
			schema := sgen.M{"type": "object", "required": []any{"r"}, "properties": sgen.M{"r": node(), "o": node(),
				"a": sgen.M{"type": "array", "items": node()}, "m": sgen.M{"type": "object", "additionalProperties": node()}}}
			var docs []any
			for _, v := range fmtVals[f] {
				docs = append(docs, M{"r": v}, M{"r": v, "o": v}, M{"r": v, "a": []any{v, fmtVals[f][0]}}, M{"r": v, "m": M{"k": v}})
			}
			pcs = append(pcs, baseCase("c02-valid", schema, docs, "format-values", f))
		}
		// programs WITHOUT value constraints (types, properties, required, items only): the fragment of the whole-document
		// completeness theorem `certShape_accepts` — the evidence counts how many of them the driver certifies (`shape`)
		for i := 0; i < c.N(80, 800); i++ {
			g := sgen.New(c.R, sgen.Opts{Defs: i%2 == 0, MaxDepth: 3, NoNestedLimits: true, NoFormatDefs: true, NoAliasDefs: true})
			root := stripConstraintsKeeping(g.Root(""), i%3).(sgen.M) // a third each: none / numeric bounds (certFull) / also string and array limits (certAll)
			docs := []any{g.FullSample(root, 0)}
			for k := 0; k < 8; k++ {
				docs = append(docs, g.Sample(root, 0))
			}
			pcs = append(pcs, baseCase("c02-valid", root, docs, "constraint-free"))
		}
		// `type` LISTS of three or more entries (with and without "null", in several orders), inline and as a definition
		// reached by $ref from a member and from array items: a value of EVERY listed type is valid
		for li, tl := range [][]any{{"string", "integer", "null"}, {"null", "string", "integer"}, {"string", "null", "integer"}, {"string", "integer", "boolean"},
			{"number", "string", "null", "boolean"}, {"integer", "string"}, {"object", "string", "null"}, {"array", "integer", "null"}} {
			val := map[string]any{"string": "PROJ-42", "integer": 42, "number": 1.5, "boolean": true, "null": nil, "object": M{"k": 1}, "array": []any{1, "x"}}
			for _, shape := range []string{"inline", "ref", "items-ref", "root-of-definition-file"} {
				if shape == "root-of-definition-file" {
					continue
				}
				node := M{"type": tl}
				schema := M{"type": "object", "properties": M{"id": node, "title": M{"type": "string"}}, "required": []any{"id"}}
				mk := func(v any) any { return M{"id": v, "title": "t"} }
				switch shape {
				case "ref":
					schema = M{"type": "object", "$defs": M{"Identifier": node}, "properties": M{"id": M{"$ref": "#/$defs/Identifier"}, "title": M{"type": "string"}}, "required": []any{"id"}}
				case "items-ref":
					schema = M{"type": "object", "$defs": M{"Identifier": node}, "properties": M{"id": M{"type": "array", "items": M{"$ref": "#/$defs/Identifier"}}}, "required": []any{"id"}}
					mk = func(v any) any { return M{"id": []any{v, v}} }
				}
				var docs []any
				for _, tn := range tl {
					docs = append(docs, mk(val[tn.(string)]))
				}
				pcs = append(pcs, baseCase("c02-valid", schema, docs, "type-list", fmt.Sprintf("#%d %s", li, shape)))
			}
		}
		// enums that LIST null among members of one other type, at positions held by value (required member, array item):
		// null is then a valid value like any other member
		for _, en := range []struct {
			name string
			node M
			vals []any
		}{
			{"untyped-strings-and-null", M{"enum": []any{"auto", "manual", nil}}, []any{"auto", "manual"}},
			{"typed-nullable-strings", M{"type": []any{"string", "null"}, "enum": []any{"on", "off", nil}}, []any{"on", "off"}},
			{"untyped-numbers-and-null", M{"enum": []any{1.5, 2.5, nil}}, []any{1.5, 2.5}},
			{"untyped-booleans-and-null", M{"enum": []any{true, nil}}, []any{true}},
			{"null-first", M{"enum": []any{nil, "x", "y"}}, []any{"x", "y"}},
		} {
			schema := M{"type": "object", "required": []any{"mode"}, "properties": M{
				"mode": sgen.DeepCopy(en.node), "opt": sgen.DeepCopy(en.node), "history": M{"type": "array", "items": sgen.DeepCopy(en.node)}}}
			v0 := en.vals[0]
			docs := []any{M{"mode": v0}, M{"mode": nil}, M{"mode": v0, "history": []any{v0, nil, en.vals[len(en.vals)-1]}}, M{"mode": nil, "history": []any{nil}},
				M{"mode": v0, "opt": en.vals[len(en.vals)-1]}}
			pcs = append(pcs, baseCase("c02-valid", schema, docs, "enum-listing-null", en.name))
		}
		// FLAT objects (scalar members, a required list, nothing else): the fragment of the generator-level theorem
		// `flat_end_to_end` — for these the model generator's output is known in closed form for EVERY schema; the
		// evidence counts how many programs the driver places inside it (`flat`), and the correspondence ties the closed
		// form to what the real generator emits and what the emitted code does
		flatNames := []string{"name", "age", "ok", "score", "first-name", "x_y", "a.b", "2nd", "URL", "id", "e-mail", "zip code", "HTTPPort", "k9", "Ω"}
		for i := 0; i < c.N(60, 600); i++ {
			n := 1 + c.R.Intn(9)
			perm := make([]int, len(flatNames)-1) // the non-ASCII name only in a tenth of the programs (outside the fragment)
			for k := range perm {
				perm[k] = k
			}
			for k := len(perm) - 1; k > 0; k-- {
				j := c.R.Intn(k + 1)
				perm[k], perm[j] = perm[j], perm[k]
			}
			props, req := sgen.M{}, []any{}
			var names []string
			for k := 0; k < n; k++ {
				nm := flatNames[perm[k]]
				if k == 0 && i%10 == 9 {
					nm = flatNames[len(flatNames)-1]
				}
				names = append(names, nm)
				props[nm] = sgen.M{"type": []string{"string", "integer", "number", "boolean"}[c.R.Intn(4)]}
				if c.R.Intn(2) == 0 {
					req = append(req, nm)
				}
			}
			schema := sgen.M{"type": "object", "properties": props}
			if len(req) > 0 || c.R.Intn(2) == 0 {
				schema["required"] = req
			}
			val := func(nm string, wrong bool) any {
				t := props[nm].(sgen.M)["type"].(string)
				if wrong {
					t = map[string]string{"string": "integer", "integer": "string", "number": "boolean", "boolean": "number"}[t]
				}
				switch t {
				case "string":
					return "v" + nm
				case "integer":
					return c.R.Intn(2000) - 1000
				case "number":
					return float64(c.R.Intn(4000)-2000) / 8
				}
				return c.R.Intn(2) == 0
			}
			full := M{}
			for _, nm := range names {
				full[nm] = val(nm, false)
			}
			docs := []any{full}
			for _, nm := range names { // each member left out (valid iff optional), each member wrongly typed (invalid)
				d, w := M{}, M{}
				for k, v := range full {
					if k != nm {
						d[k] = v
					}
					w[k] = v
				}
				w[nm] = val(nm, true)
				docs = append(docs, d, w)
			}
			onlyReq := M{"unknown-key": 1}
			for _, r := range req {
				onlyReq[r.(string)] = full[r.(string)]
			}
			docs = append(docs, onlyReq, M{})
			pcs = append(pcs, baseCase("c02-valid", schema, docs, "flat-object"))
		}
		// TREES of objects with constrained scalar leaves and arrays of scalars, up to three levels: the fragment of
		// `tree_end_to_end` (the evidence counts the programs the driver places inside it: `tree`, and `flatc` for one level)
		for i := 0; i < c.N(60, 600); i++ {
			var mkNode func(depth int) (sgen.M, M, []M)
			mkNode = func(depth int) (sgen.M, M, []M) {
				n := 1 + c.R.Intn(5)
				perm := make([]int, len(flatNames)-1)
				for k := range perm {
					perm[k] = k
				}
				for k := len(perm) - 1; k > 0; k-- {
					j := c.R.Intn(k + 1)
					perm[k], perm[j] = perm[j], perm[k]
				}
				props, req, full := sgen.M{}, []any{}, M{}
				var faults []M
				for k := 0; k < n; k++ {
					nm := flatNames[perm[k]]
					isReq := c.R.Intn(2) == 0
					if isReq {
						req = append(req, nm)
					}
					switch kind := c.R.Intn(8); {
					case kind == 0 && depth > 1:
						sub, subFull, subFaults := mkNode(depth - 1)
						props[nm], full[nm] = sub, subFull
						for _, sf := range subFaults {
							f := sgen.DeepCopy(full).(M)
							f[nm] = sf
							faults = append(faults, f)
						}
					case kind == 1:
						props[nm], full[nm] = sgen.M{"type": "array", "items": sgen.M{"type": "integer"}, "minItems": 1, "maxItems": 3}, []any{1, 2}
						faults = append(faults, M{nm: []any{}}, M{nm: []any{1, 2, 3, 4}}, M{nm: []any{"x"}})
					case kind == 2:
						props[nm], full[nm] = sgen.M{"type": "string", "minLength": 2, "maxLength": 5, "pattern": "^a"}, "abc"
						faults = append(faults, M{nm: "a"}, M{nm: "abcdef"}, M{nm: "bcd"})
					case kind == 3:
						props[nm], full[nm] = sgen.M{"type": "integer", "minimum": -2, "exclusiveMaximum": 9}, 8
						faults = append(faults, M{nm: -3}, M{nm: 9}, M{nm: "8"})
					case kind == 4:
						props[nm], full[nm] = sgen.M{"type": "number", "exclusiveMinimum": 0, "maximum": 2.5}, 2.5
						faults = append(faults, M{nm: 0}, M{nm: 2.75})
					case kind == 5:
						props[nm], full[nm] = sgen.M{"type": "array", "items": sgen.M{"type": "string"}}, []any{"x", "y"}
						faults = append(faults, M{nm: []any{1}})
					default:
						t := []string{"string", "integer", "number", "boolean"}[c.R.Intn(4)]
						props[nm] = sgen.M{"type": t}
						full[nm] = map[string]any{"string": "v", "integer": 7, "number": 1.5, "boolean": true}[t]
					}
				}
				node := sgen.M{"type": "object", "properties": props}
				if len(req) > 0 {
					node["required"] = req
				}
				// single faults on top of the full document of this node, and every required key removed
				var out []M
				for _, f := range faults {
					d := sgen.DeepCopy(full).(M)
					for k, v := range f {
						d[k] = v
					}
					out = append(out, d)
				}
				for _, r := range req {
					d := sgen.DeepCopy(full).(M)
					delete(d, r.(string))
					out = append(out, d)
				}
				return node, full, out
			}
			schema, full, faults := mkNode(1 + i%3)
			docs := []any{full}
			for _, f := range faults {
				docs = append(docs, f)
			}
			if len(docs) > 40 {
				docs = docs[:40]
			}
			pcs = append(pcs, baseCase("c02-valid", schema, docs, "tree-of-objects", fmt.Sprintf("depth=%d", 1+i%3)))
		}
		// a member with a valid default AND a constraint its Go zero value violates: the documents that omit it (or give
		// null) are valid and must be accepted — at the top, nested, and in array items
		zeroHostile := map[string]sgen.M{
			"int-min":      {"type": "integer", "default": 8080, "minimum": 1},
			"int-xmin":     {"type": "integer", "default": 5, "exclusiveMinimum": 0},
			"num-max-neg":  {"type": "number", "default": -5, "maximum": -1},
			"num-xmax":     {"type": "number", "default": -0.5, "exclusiveMaximum": 0},
			"str-minlen":   {"type": "string", "default": "localhost", "minLength": 1},
			"str-pattern":  {"type": "string", "default": "https", "pattern": "^a|^https$"},
			"int-multiple": {"type": "integer", "default": 6, "multipleOf": 3, "minimum": 3},
			"arr-minitems": {"type": "array", "items": sgen.M{"type": "integer"}, "default": []any{1, 2}, "minItems": 1},
		}
		for _, zn := range core.SortedKeys(zeroHostile) {
			member := func() sgen.M { return sgen.DeepCopy(zeroHostile[zn]).(sgen.M) }
			if zn == "str-pattern" {
				m := member()
				m["pattern"] = "^abc$"
				m["default"] = "abc"
				zeroHostile[zn] = m
			}
			obj := func() sgen.M {
				return sgen.M{"type": "object", "properties": sgen.M{"v": member(), "name": sgen.M{"type": "string"}}, "required": []any{"name"}}
			}
			present := zeroHostile[zn]["default"]
			inner := []any{M{"name": "a"}, M{"name": "a", "v": nil}, M{"name": "a", "v": present}}
			schemas := map[string]struct {
				s    sgen.M
				wrap func(v any) any
			}{
				"top":    {obj(), func(v any) any { return v }},
				"nested": {sgen.M{"type": "object", "properties": sgen.M{"o": obj()}}, func(v any) any { return M{"o": v} }},
				"items":  {sgen.M{"type": "object", "properties": sgen.M{"a": sgen.M{"type": "array", "items": obj()}}}, func(v any) any { return M{"a": []any{v, M{"name": "b"}}} }},
			}
			for _, pn := range core.SortedKeys(schemas) {
				var docs []any
				for _, d := range inner {
					docs = append(docs, schemas[pn].wrap(sgen.DeepCopy(d)))
				}
				pcs = append(pcs, baseCase("c02-valid", schemas[pn].s, docs, "default-and-zero-hostile-constraint", zn, pn))
			}
		}
		// integer intervals with ONE exclusive side around every type edge, with and without --min-sized-ints: the two
		// extreme admitted values (and two inside) are valid documents
		for _, e := range []int64{126, 127, 128, 254, 255, 256, 32766, 32767, 32768, 65534, 65535, 65536, 2147483647, 2147483648, 4294967295, 4294967296} {
			for _, lo := range []int64{-129, -1, 0, 1} {
				for form := 0; form < 4; form++ {
					node := sgen.M{"type": "integer"}
					var first, last int64
					switch form {
					case 0: // exclusive lower, inclusive upper
						node["exclusiveMinimum"], node["maximum"] = lo, e
						first, last = lo+1, e
					case 1: // inclusive lower, exclusive upper
						node["minimum"], node["exclusiveMaximum"] = lo, e
						first, last = lo, e-1
					case 2: // draft-4 spelling of form 0
						node["minimum"], node["exclusiveMinimum"], node["maximum"] = lo, true, e
						first, last = lo+1, e
					case 3: // draft-4 spelling of form 1
						node["minimum"], node["maximum"], node["exclusiveMaximum"] = lo, e, true
						first, last = lo, e-1
					}
					schema := sgen.M{"type": "object", "properties": sgen.M{"v": node}, "required": []any{"v"}}
					docs := []any{M{"v": first}, M{"v": last}, M{"v": first + 1}, M{"v": last - 1}}
					for _, ms := range []bool{true, false} {
						if !ms && form >= 2 && (e%2 == 0) && !c.Thorough() {
							continue
						}
						pc := baseCase("c02-valid", schema, docs, "one-exclusive-side", fmt.Sprintf("form=%d min-sized=%v", form, ms))
						pc.Cfg.MinSizedInts = ms
						pcs = append(pcs, pc)
					}
				}
			}
		}
		// next to "$defs", a stale legacy "definitions" block with the same names must not change anything
		pcs = append(pcs, staleDefinitionVariants(pcs, c.N(80, 800))...)
		res := runCases(c, pcs)
		crossCheckSpec(c, res)
		fails := 0
		for _, r := range res {
			if r.RunsJ == nil || (r.Case.Stream != "c02-valid" && r.Case.Stream != "c02-near-duplicates") {
				continue
			}
			for i := range r.DocJSON {
				if i >= len(r.ModelRuns) || r.ModelRuns[i].Spec != "valid" {
					c.Count("c02", "not-valid-skipped")
					continue
				}
				if strings.HasPrefix(r.ModelRuns[i].J, "unmodelled") {
					c.Count("c02", "outside the modelled run-time domain (skipped): "+r.ModelRuns[i].J)
					continue
				}
				if !isASCII(r.DocJSON[i]) {
					continue
				}
				real := r.RunsJ[i]
				c.Eval(r.Case.Stream + "|" + real.Kind + "|" + classOfDoc(r.DocJSON[i]))
				c.Count("verdict", "valid/"+real.Kind)
				if real.Kind != "ok" {
					fails++
					if fails <= 3 {
						c.Fail("oracle", "a valid document is not accepted: "+clip(real.Msg, 200), replayOf(r, i, nil), false)
					}
					continue
				}
				k29 := 0
				doc := core.CanonValue(expectK29(r.Case.Schema.(sgen.M), r.Case.Schema.(sgen.M), pruneUndeclared(r.Case.Schema.(sgen.M), r.Case.Schema.(sgen.M), r.Case.Docs[i], 0), false, 0, &k29))
				if k29 > 0 {
					c.Count("c02", "K29 positions (struct-wrapped enum below a map value: expected as {\"Value\":v})")
				}
				out, err := core.ParseCanon(real.Canon)
				if err != nil {
					continue
				}
				if ok, why := core.SubsetOK(doc, out, ""); !ok {
					fails++
					if fails <= 3 {
						c.Fail("oracle", "a declared value is lost or changed by decode+marshal: "+why, replayOf(r, i, nil), false)
					}
				}
			}
			if len(c.Samples) < 6 && len(r.DocJSON) > 1 {
				c.Sample(M{"schema": clip(string(r.SchemaJSON), 400), "doc": r.DocJSON[1]})
			}
		}
		certCount(c, res, "shape")
		certCount(c, res, "full")
		certCount(c, res, "all")
		certCount(c, res, "exact")
		certCount(c, res, "flat")
		certCount(c, res, "flatc")
		certCount(c, res, "tree")
		breaks(c, res, nil, fails > 0)
		knownProgramFindings(c)
	})

	// ------------------------------------------------------------------ C09
	register("C09", func(c *engine.Ctx) {
		c.Rule = "one optional property with a default per program: scalar defaults (string — also multi-line, CR LF, quotes, backslash, backtick, %, non-ASCII —, integer, number incl. 1e19 / 2^63 / 1e-6, boolean), string/number enum carriers, depth-1 arrays of primitives; documents with the property absent, null, and present with another valid value; the decoded field (read from json.Marshal of the decoded value) must equal the default resp. the document value; two schema nodes that ask for the same Go type name (sibling properties, definitions, definition vs property; both orders) and differ only in their defaults must each apply their own. Plus random schemas with defaults for the model tie. Distinct = distinct (default kind, document kind, outcome)."
		c.Proofs([]string{"GJS.Props.C09"}, []string{
			"GJS.Props.C09.absent_gets_default", "GJS.Props.C09.null_gets_default", "GJS.Props.C09.present_wins",
			"GJS.Props.C09.literal_value_typed",
		})
		type dcase struct {
			name  string
			prop  M
			other any
		}
		cases := []dcase{
			{"string", M{"type": "string", "default": "abc"}, "zz"},
			{"string-constrained", M{"type": "string", "minLength": 2, "default": "abc"}, "zzz"},
			{"integer", M{"type": "integer", "default": 5}, 7},
			{"integer-bounded", M{"type": "integer", "minimum": 1, "maximum": 9, "default": 5}, 7},
			{"number", M{"type": "number", "default": 1.5}, 2.25},
			{"number-integral-default", M{"type": "number", "default": 2}, 0.5},
			{"string-crlf-default", M{"type": "string", "default": "Content-Type: text/plain\r\nConnection: close\r\n\r\n"}, "zz"},
			{"string-multiline-default", M{"type": "string", "default": "line one\nline two\n"}, "zz"},
			{"string-hostile-default", M{"type": "string", "default": "q\"q back\\slash `tick` 100% {{x}} \t tab é 日本"}, "zz"},
			{"string-cr-only-default", M{"type": "string", "default": "a\rb"}, "zz"},
			{"array-of-crlf-strings", M{"type": "array", "items": M{"type": "string"}, "default": []any{"a\r\nb", "c\nd"}}, []any{"c"}},
			{"number-huge-default", M{"type": "number", "default": 1e19}, 0.5},
			{"number-huge-negative-default", M{"type": "number", "default": -1e19}, 0.5},
			{"number-2^63-default", M{"type": "number", "default": 9223372036854775808.0}, 1.5},
			{"number-large-exact-default", M{"type": "number", "default": 4503599627370496.0}, 1.5},
			{"integer-large-default", M{"type": "integer", "default": 4294967296}, 7},
			{"integer-negative-default", M{"type": "integer", "default": -7}, 7},
			{"number-tiny-default", M{"type": "number", "default": 0.000001}, 2.5},
			{"boolean-true", M{"type": "boolean", "default": true}, false},
			{"string-enum", M{"type": "string", "enum": []any{"red", "green"}, "default": "green"}, "red"},
			{"untyped-string-enum", M{"enum": []any{"red", "green"}, "default": "green"}, "red"},
			{"number-enum", M{"type": "number", "enum": []any{1.5, 2.5}, "default": 2.5}, 1.5},
			{"integer-enum", M{"type": "integer", "enum": []any{1, 2, 3}, "default": 2}, 3},
			{"integer-enum-last-member", M{"type": "integer", "enum": []any{10, 20, 30}, "default": 30}, 10},
			{"untyped-integer-enum", M{"enum": []any{1, 2, 3}, "default": 2}, 3},
			{"boolean-enum", M{"type": "boolean", "enum": []any{true}, "default": true}, true},
			{"number-enum-integral-members", M{"type": "number", "enum": []any{1, 2.5}, "default": 1}, 2.5},
			{"array-of-strings", M{"type": "array", "items": M{"type": "string"}, "default": []any{"a", "b"}}, []any{"c"}},
			{"array-of-integers", M{"type": "array", "items": M{"type": "integer"}, "default": []any{1, 2, 3}}, []any{4}},
			{"array-of-numbers", M{"type": "array", "items": M{"type": "number"}, "default": []any{1.5}}, []any{2.5, 3}},
		}
		// defaults in which equal sub-values repeat (the literal printer must print each of them, not a reference; object-valued
		// and nested-array defaults are outside the model's literal fragment, K4: their witness is replayed as fixed finding R16)
		cases = append(cases,
			dcase{"array-of-equal-strings", M{"type": "array", "items": M{"type": "string"}, "default": []any{"s", "s"}}, []any{"c"}},
		)
		// integer defaults at the edges of the narrow types --min-sized-ints chooses (run WITH the flag: name prefix "ms-")
		cases = append(cases,
			dcase{"ms-uint64-2^63-default", M{"type": "integer", "minimum": 0, "default": json.Number("9223372036854775808")}, 7},
			dcase{"ms-uint64-near-max-default", M{"type": "integer", "minimum": 0, "default": json.Number("18446744073709549568")}, 7},
			dcase{"ms-uint64-2^53-default", M{"type": "integer", "minimum": 0, "default": json.Number("9007199254740992")}, 7},
			dcase{"ms-uint8-max-default", M{"type": "integer", "minimum": 0, "maximum": 255, "default": 255}, 7},
			dcase{"ms-int8-min-default", M{"type": "integer", "minimum": -128, "maximum": 127, "default": -128}, 7},
			dcase{"ms-uint16-default", M{"type": "integer", "minimum": 0, "maximum": 65535, "default": 40000}, 7},
			dcase{"ms-int32-min-default", M{"type": "integer", "minimum": -2147483648, "maximum": 2147483647, "default": -2147483648}, 7},
			dcase{"ms-uint32-max-default", M{"type": "integer", "minimum": 0, "maximum": 4294967295, "default": 4294967295}, 7},
			dcase{"ms-int64-default", M{"type": "integer", "maximum": 100, "default": -9007199254740992}, 7},
			dcase{"ms-array-of-small-integers", M{"type": "array", "items": M{"type": "integer", "minimum": -5, "maximum": 300}, "default": []any{-5, 300}}, []any{4}},
		)
		var pcs []*core.PCase
		for _, dc := range cases {
			for _, withSibling := range []bool{false, true} {
				props := M{"v": dc.prop}
				req := []any{}
				if withSibling {
					props["w"] = M{"type": "string"}
					req = append(req, "w")
				}
				schema := M{"type": "object", "properties": props}
				if len(req) > 0 {
					schema["required"] = req
				}
				mk := func(m M) any {
					if withSibling {
						m["w"] = "s"
					}
					return m
				}
				docs := []any{mk(M{}), mk(M{"v": nil}), mk(M{"v": dc.other})}
				pc := baseCase("c09-defaults", schema, docs, dc.name)
				pc.Cfg.MinSizedInts = strings.HasPrefix(dc.name, "ms-")
				pcs = append(pcs, pc)
			}
		}
		// two schema nodes that ask for the same Go type name and differ ONLY in their defaults: each position must
		// get its OWN default (the generator compares the nodes before it reuses a declared type)
		type twinCase struct {
			k1, k2 string
			d1, d2 any
		}
		var twinMeta []twinCase
		var twinCases []*core.PCase
		for _, dp := range []struct {
			ty     string
			d1, d2 any
		}{{"integer", 1, 2}, {"string", "a", "b"}, {"boolean", true, false}, {"number", 1.5, 2.5}} {
			for _, swap := range []bool{false, true} {
				d1, d2 := dp.d1, dp.d2
				if swap {
					d1, d2 = d2, d1
				}
				node := func(d any) M {
					return M{"type": "object", "properties": M{"t": M{"type": dp.ty, "default": d}, "u": M{"type": "string"}}}
				}
				for _, way := range []string{"sibling-properties", "definitions", "definition-and-property"} {
					var schema M
					var tc twinCase
					switch way {
					case "sibling-properties":
						schema = M{"type": "object", "properties": M{"a-b": node(d1), "a_b": node(d2)}}
						tc = twinCase{"a-b", "a_b", d1, d2}
					case "definitions":
						schema = M{"type": "object", "properties": M{"p": M{"$ref": "#/$defs/a-b"}, "q": M{"$ref": "#/$defs/a_b"}}, "$defs": M{"a-b": node(d1), "a_b": node(d2)}}
						tc = twinCase{"p", "q", d1, d2}
					case "definition-and-property":
						schema = M{"type": "object", "properties": M{"p": node(d2), "q": M{"$ref": "#/$defs/RootP"}}, "$defs": M{"RootP": node(d1)}}
						tc = twinCase{"q", "p", d1, d2}
					}
					docs := []any{M{tc.k1: M{"u": "x"}, tc.k2: M{"u": "y"}}}
					twinCases = append(twinCases, baseCase("c09-same-name-different-default", schema, docs, dp.ty, way, fmt.Sprint(swap)))
					twinMeta = append(twinMeta, tc)
				}
			}
		}
		do := sgen.Opts{Defaults: true, Nullable: false, Enums: true, MaxDepth: 2}
		for i := 0; i < c.N(150, 2500); i++ {
			g := sgen.New(c.R, do)
			root := g.Root("")
			pcs = append(pcs, baseCase("c09-random", root, g.Docs(root, 10)))
		}
		fails := 0
		tres := runCases(c, twinCases)
		for i, r := range tres {
			if r.RunsJ == nil {
				fails++
				c.Fail("oracle", "same-named nodes with different defaults: the program does not generate/compile: "+r.Real.ErrMsg+r.CompileErr, replayOf(r, -1, nil), false)
				continue
			}
			tc := twinMeta[i]
			rr := r.RunsJ[0]
			c.Eval("twin-default|" + strings.Join(r.Case.Labels, ",") + "|" + rr.Kind)
			ok := rr.Kind == "ok"
			if ok {
				out, err := core.ParseCanon(rr.Canon)
				m, _ := out.(map[string]any)
				g1, _ := m[tc.k1].(map[string]any)
				g2, _ := m[tc.k2].(map[string]any)
				ok = err == nil && g1 != nil && g2 != nil && core.Canon(g1["t"]) == core.Canon(core.CanonValue(tc.d1)) && core.Canon(g2["t"]) == core.Canon(core.CanonValue(tc.d2))
				// a false / zero default is dropped again by omitempty: accept its absence
				if !ok && err == nil && g1 != nil && g2 != nil {
					a1, p1 := g1["t"]
					a2, p2 := g2["t"]
					e1, e2 := core.CanonValue(tc.d1), core.CanonValue(tc.d2)
					ok = ((!p1 && core.IsEmptyJSON(e1)) || (p1 && core.Canon(a1) == core.Canon(e1))) && ((!p2 && core.IsEmptyJSON(e2)) || (p2 && core.Canon(a2) == core.Canon(e2)))
				}
			}
			if !ok {
				fails++
				if fails <= 3 {
					c.Fail("oracle", fmt.Sprintf("two same-named nodes with defaults %v and %v: decoding a document that omits both gives %s %s", tc.d1, tc.d2, rr.Kind, clip(rr.Canon+rr.Msg, 200)), replayOf(r, 0, nil), false)
				}
			}
		}
		// next to "$defs", a stale legacy "definitions" block with the same names must not change anything
		pcs = append(pcs, staleDefinitionVariants(pcs, c.N(80, 800))...)
		// three (or four) definitions that ask for one Go type name and differ only in a default: every use decodes an
		// empty object to ITS definition's default, whichever of the earlier declarations its schema equals
		names := []string{"o p", "o-p", "o_p", "o.p"}
		for _, seq := range [][]int{{3, 5, 5}, {3, 5, 3}, {3, 3, 5}, {5, 3, 3}, {3, 5, 7}, {3, 5, 5, 3}, {3, 5, 7, 5}, {3, 5, 7, 7}, {1, 1, 2, 2}} {
			props, defs := M{}, M{}
			var docs []any
			for i, d := range seq {
				defs[names[i]] = M{"type": "object", "properties": M{"retries": M{"type": "integer", "default": d}, "label": M{"type": "string"}}}
				props[fmt.Sprintf("p%d", i)] = M{"$ref": "#/$defs/" + names[i]}
				docs = append(docs, M{fmt.Sprintf("p%d", i): M{}})
			}
			pcs = append(pcs, baseCase("c09-colliding-defaults", M{"type": "object", "properties": props, "$defs": defs}, docs, fmt.Sprint(seq)))
		}
		res := runCases(c, pcs)
		res = append(res, tres...)
		for _, r := range res {
			if r.Case.Stream == "c09-colliding-defaults" {
				if r.RunsJ == nil {
					fails++
					c.Fail("oracle", "colliding definitions with defaults: the program does not generate/compile: "+r.Real.ErrMsg+r.CompileErr, replayOf(r, -1, nil), false)
					continue
				}
				for i, rr := range r.RunsJ {
					key := fmt.Sprintf("p%d", i)
					want := r.Case.Schema.(M)["$defs"].(M)[names[i]].(M)["properties"].(M)["retries"].(M)["default"]
					c.Eval("colliding-defaults|" + r.Case.Labels[0] + "|" + key + "|" + rr.Kind)
					if rr.Kind != "ok" {
						fails++
						if fails <= 3 {
							c.Fail("oracle", "colliding definitions with defaults: an empty object is rejected: "+clip(rr.Msg, 200), replayOf(r, i, nil), false)
						}
						continue
					}
					out, err := core.ParseCanon(rr.Canon)
					if err != nil {
						continue
					}
					got := any(nil)
					if m, ok := out.(map[string]any)[key].(map[string]any); ok {
						got = m["retries"]
					}
					if core.Canon(got) != core.Canon(core.CanonValue(want)) {
						fails++
						if fails <= 3 {
							c.Fail("oracle", fmt.Sprintf("definitions %v competing for one type name: %s decodes {} to retries=%s, its definition's default is %v", r.Case.Labels[0], key, core.Canon(got), want), replayOf(r, i, nil), false)
						}
					}
				}
				continue
			}
			if r.Case.Stream != "c09-defaults" {
				continue
			}
			if r.RunsJ == nil {
				fails++
				c.Fail("oracle", "a program with a valid default does not generate/compile: "+r.Real.ErrMsg+r.CompileErr, replayOf(r, -1, nil), false)
				continue
			}
			prop := r.Case.Schema.(M)["properties"].(M)["v"].(M)
			want := []any{prop["default"], prop["default"], nil}
			_, isEnum := prop["enum"]
			for i, rr := range r.RunsJ {
				kind := []string{"absent", "null", "present"}[i]
				if isEnum && kind == "null" {
					continue // an enum-typed field's method is called with null and rejects it: known finding K-default-enum-null
				}
				c.Eval(r.Case.Labels[0] + "|" + kind + "|" + rr.Kind)
				c.Count("default-docs", kind+"/"+rr.Kind)
				if rr.Kind != "ok" {
					fails++
					if fails <= 3 {
						c.Fail("oracle", "document with the defaulted property "+kind+" is rejected: "+clip(rr.Msg, 200), replayOf(r, i, nil), false)
					}
					continue
				}
				out, err := core.ParseCanon(rr.Canon)
				if err != nil {
					continue
				}
				got, present := out.(map[string]any)["v"]
				exp := want[i]
				if i == 2 {
					exp = r.Case.Docs[2].(M)["v"]
				}
				if !present && core.IsEmptyJSON(core.CanonValue(exp)) {
					continue // an empty value is omitted again by omitempty: not observable through json.Marshal
				}
				if core.Canon(got) != core.Canon(core.CanonValue(exp)) {
					fails++
					if fails <= 3 {
						c.Fail("oracle", fmt.Sprintf("property %s: decoded field is %s, expected %s", kind, core.Canon(got), core.Canon(core.CanonValue(exp))), replayOf(r, i, nil), false)
					}
				}
			}
			if len(c.Samples) < 6 {
				c.Sample(M{"schema": string(r.SchemaJSON), "docs": r.DocJSON})
			}
		}
		breaks(c, res, nil, fails > 0)
		knownMultiFileFindings(c)
		knownProgramFindings(c)
	})
}

func containsNull(v any) bool {
	switch t := v.(type) {
	case nil:
		return true
	case M:
		for _, x := range t {
			if containsNull(x) {
				return true
			}
		}
	case []any:
		for _, x := range t {
			if containsNull(x) {
				return true
			}
		}
	}
	return false
}

func toAnyS(xs []string) []any {
	out := make([]any, len(xs))
	for i, x := range xs {
		out[i] = x
	}
	return out
}

var _ = strings.Contains

// pruneUndeclared removes, at object positions with declared properties and no additionalProperties, the
// keys the schema does not declare (the generated struct has no field for them; C02 speaks of declared values).
func pruneUndeclared(root, s sgen.M, v any, depth int) any {
	if depth > 12 || s == nil {
		return v
	}
	if ref, ok := s["$ref"].(string); ok {
		for _, kw := range []string{"$defs", "definitions"} {
			if defs, ok := root[kw].(sgen.M); ok {
				if d, ok := defs[ref[strings.LastIndex(ref, "/")+1:]].(sgen.M); ok {
					return pruneUndeclared(root, d, v, depth+1)
				}
			}
		}
		return v
	}
	if bs, ok := s["allOf"].([]any); ok && len(bs) > 0 {
		// the generated struct has the union of the branches' members (and the node's own)
		union := sgen.M{}
		open := false
		add := func(n sgen.M) {
			for hop := 0; hop < 8; hop++ {
				ref, isRef := n["$ref"].(string)
				if !isRef {
					break
				}
				var next sgen.M
				for _, kw := range []string{"$defs", "definitions"} {
					if defs, ok := root[kw].(sgen.M); ok {
						if d, ok := defs[ref[strings.LastIndex(ref, "/")+1:]].(sgen.M); ok {
							next = d
						}
					}
				}
				if next == nil {
					open = true
					return
				}
				n = next
			}
			if _, has := n["additionalProperties"]; has {
				open = true
			}
			if _, nested := n["allOf"]; nested {
				open = true
			}
			if _, nested := n["anyOf"]; nested {
				open = true
			}
			if ps, ok := n["properties"].(sgen.M); ok {
				for k, x := range ps {
					if _, dup := union[k]; !dup {
						union[k] = x
					}
				}
			}
		}
		if ps, ok := s["properties"].(sgen.M); ok {
			for k, x := range ps {
				union[k] = x
			}
		}
		if _, has := s["additionalProperties"]; has {
			open = true
		}
		for _, b := range bs {
			if bm, ok := b.(sgen.M); ok {
				add(bm)
			} else {
				open = true
			}
		}
		if open || len(union) == 0 {
			return v
		}
		if t, ok := v.(sgen.M); ok {
			out := sgen.M{}
			for k, x := range t {
				if ps, declared := union[k].(sgen.M); declared {
					out[k] = pruneUndeclared(root, ps, x, depth+1)
				}
			}
			return out
		}
		return v
	}
	switch t := v.(type) {
	case sgen.M:
		props, ok := s["properties"].(sgen.M)
		if !ok || len(props) == 0 {
			return v
		}
		if _, has := s["additionalProperties"]; has {
			return v
		}
		out := sgen.M{}
		for k, x := range t {
			if ps, declared := props[k].(sgen.M); declared {
				out[k] = pruneUndeclared(root, ps, x, depth+1)
			}
		}
		return out
	case []any:
		items, ok := s["items"].(sgen.M)
		if !ok {
			return v
		}
		out := make([]any, len(t))
		for i, x := range t {
			out[i] = pruneUndeclared(root, items, x, depth+1)
		}
		return out
	}
	return v
}

// wrappedEnum: does the generator wrap this enum in a struct (values of several Go kinds, or null-typed)?
func wrappedEnum(s sgen.M) bool {
	vals, ok := s["enum"].([]any)
	if !ok {
		return false
	}
	if t, ok := s["type"].(string); ok {
		return t == "null"
	}
	if tl, ok := s["type"].([]any); ok && len(tl) == 1 {
		return tl[0] == "null"
	}
	kind := ""
	for _, v := range vals {
		k := "interface{}"
		switch v.(type) {
		case string:
			k = "string"
		case bool:
			k = "bool"
		case int, int64, float64, json.Number:
			k = "float64"
		}
		if kind == "" {
			kind = k
		} else if kind != k {
			return true
		}
	}
	return kind == "interface{}"
}

// expectK29 rewrites the expected output for known finding K29: a struct-wrapped enum BELOW A MAP VALUE is not
// addressable, its pointer-receiver MarshalJSON is not called and the value re-appears as {"Value": v}.
// Everywhere else the bare value is expected.
func expectK29(root, s sgen.M, v any, belowMap bool, depth int, n *int) any {
	if depth > 12 || s == nil || v == nil {
		return v
	}
	if ref, ok := s["$ref"].(string); ok {
		for _, kw := range []string{"$defs", "definitions"} {
			if defs, ok := root[kw].(sgen.M); ok {
				if d, ok := defs[ref[strings.LastIndex(ref, "/")+1:]].(sgen.M); ok {
					if _, isEnum := d["enum"]; isEnum && d["type"] == nil {
						return v // a reference to an untyped enum definition is interface{} (K18): no wrapper here
					}
					return expectK29(root, d, v, belowMap, depth+1, n)
				}
			}
		}
		return v
	}
	if wrappedEnum(s) {
		if belowMap {
			*n++
			return sgen.M{"Value": v}
		}
		return v
	}
	switch t := v.(type) {
	case sgen.M:
		props, _ := s["properties"].(sgen.M)
		addl, _ := s["additionalProperties"].(sgen.M)
		out := sgen.M{}
		for k, x := range t {
			if ps, declared := props[k].(sgen.M); declared {
				// a struct field is as addressable as its struct; an optional struct is reached through a pointer
				req := false
				if rl, ok := s["required"].([]any); ok {
					for _, r := range rl {
						if r == k {
							req = true
						}
					}
				}
				below := belowMap
				_, hasDefault := ps["default"]
				if !req && !hasDefault && !typeIsNillable(root, ps) {
					below = false // an optional non-nillable field is a pointer: the pointee is addressable again
				}
				out[k] = expectK29(root, ps, x, below, depth+1, n)
			} else if addl != nil && len(props) == 0 {
				out[k] = expectK29(root, addl, x, true, depth+1, n)
			} else {
				out[k] = x
			}
		}
		return out
	case []any:
		items, ok := s["items"].(sgen.M)
		if !ok {
			return v
		}
		out := make([]any, len(t))
		for i, x := range t {
			out[i] = expectK29(root, items, x, false, depth+1, n) // slice elements are addressable
		}
		return out
	}
	return v
}

// typeIsNillable: does the property become a slice / map / interface{} (no pointer wrapping when optional)?
func typeIsNillable(root, s sgen.M) bool {
	if ref, ok := s["$ref"].(string); ok {
		for _, kw := range []string{"$defs", "definitions"} {
			if defs, ok := root[kw].(sgen.M); ok {
				if d, ok := defs[ref[strings.LastIndex(ref, "/")+1:]].(sgen.M); ok {
					_ = d
					return false // a reference to a definition is a named type: wrapped in a pointer
				}
			}
		}
		return false
	}
	if _, isEnum := s["enum"]; isEnum {
		return false
	}
	switch t := s["type"].(type) {
	case string:
		if t == "array" {
			return true
		}
		if t == "object" {
			props, _ := s["properties"].(sgen.M)
			return len(props) == 0 // a property-less object is a map
		}
		return false
	case nil:
		_, hasProps := s["properties"]
		return !hasProps // untyped: interface{}
	}
	return false
}

// typesAllMatch reports whether every value of doc DEFINITELY has the JSON type its position in schema states (walking
// properties, items, additionalProperties and $refs into $defs / definitions).  Anything it does not understand
// (composition, enums, type lists other than [T] / [T, null]) makes it answer false: it is only used to set documents
// apart that are invalid for ANOTHER reason than a type.
func typesAllMatch(root, schema sgen.M, doc any, depth int) bool {
	if depth > 12 {
		return false
	}
	if ref, ok := schema["$ref"].(string); ok {
		for _, kw := range []string{"#/$defs/", "#/definitions/"} {
			if strings.HasPrefix(ref, kw) {
				if defs, ok := root[strings.Trim(kw, "#/")].(sgen.M); ok {
					if t, ok := defs[strings.TrimPrefix(ref, kw)].(sgen.M); ok {
						return typesAllMatch(root, t, doc, depth+1)
					}
				}
			}
		}
		return false
	}
	for _, kw := range []string{"allOf", "anyOf", "oneOf", "not", "enum", "const"} {
		if _, has := schema[kw]; has {
			return false
		}
	}
	T, nullable := "", false
	switch t := schema["type"].(type) {
	case nil:
		return true
	case string:
		T = t
	case []any:
		for _, x := range t {
			if x == "null" {
				nullable = true
			} else if T == "" {
				T, _ = x.(string)
			} else {
				return false
			}
		}
	default:
		return false
	}
	if doc == nil {
		return nullable || T == "null"
	}
	switch v := doc.(type) {
	case bool:
		return T == "boolean"
	case string:
		return T == "string"
	case float64:
		return T == "number" || (T == "integer" && v == float64(int64(v)))
	case int:
		return T == "number" || T == "integer"
	case json.Number:
		return T == "number" || (T == "integer" && !strings.ContainsAny(string(v), ".eE"))
	case []any:
		if T != "array" {
			return false
		}
		it, _ := schema["items"].(sgen.M)
		for _, x := range v {
			if it != nil && !typesAllMatch(root, it, x, depth+1) {
				return false
			}
		}
		return true
	case map[string]any:
		if T != "object" {
			return false
		}
		props, _ := schema["properties"].(sgen.M)
		addl, _ := schema["additionalProperties"].(sgen.M)
		for k, x := range v {
			if ps, ok := props[k].(sgen.M); ok {
				if !typesAllMatch(root, ps, x, depth+1) {
					return false
				}
			} else if addl != nil && !typesAllMatch(root, addl, x, depth+1) {
				return false
			}
		}
		return true
	}
	return false
}

package checks

import (
	"bytes"
	"fmt"
	"github.com/atombender/go-jsonschema/pkg/generator"
	"os"
	"os/exec"
	"path/filepath"
	"sort"
	"strings"

	"verifharness/internal/core"
	"verifharness/internal/engine"
	"verifharness/internal/sgen"
)

func randomCfg(c *engine.Ctx) core.Cfg {
	cfg := core.DefaultCfg()
	cfg.RootType = "Root"
	cfg.ExtraImports = c.R.P(0.4)
	cfg.MinSizedInts = c.R.P(0.3)
	cfg.OnlyModels = c.R.P(0.15)
	if c.R.P(0.3) {
		cfg.Caps = []string{"ID", "URL"}
	}
	if c.R.P(0.3) {
		cfg.Tags = []string{"json"}
	}
	return cfg
}

// respell rewrites a schema in the legacy / alternative spellings selected by the mask.
func respell(v any, mask int, top bool) any {
	const (
		legacyID = 1 << iota
		legacyDefs
		legacyRef
		typeAsList
	)
	switch t := v.(type) {
	case map[string]any:
		o := map[string]any{}
		for k, x := range t {
			nk := k
			switch {
			case k == "$defs" && mask&legacyDefs != 0:
				nk = "definitions"
			case k == "$id" && mask&legacyID != 0:
				nk = "id"
			}
			if k == "$ref" {
				if s, ok := x.(string); ok && mask&legacyRef != 0 {
					o[nk] = strings.Replace(s, "#/$defs/", "#/definitions/", 1)
					continue
				}
			}
			if k == "type" {
				if s, ok := x.(string); ok && mask&typeAsList != 0 {
					o[nk] = []any{s}
					continue
				}
			}
			if k == "enum" || k == "default" || k == "required" {
				o[nk] = x
				continue
			}
			if k == "properties" || k == "$defs" {
				m := map[string]any{}
				if xm, ok := x.(map[string]any); ok {
					for pk, pv := range xm {
						m[pk] = respell(pv, mask, false)
					}
					o[nk] = m
					continue
				}
			}
			o[nk] = respell(x, mask, false)
		}
		return o
	case []any:
		var a []any
		for _, x := range t {
			a = append(a, respell(x, mask, false))
		}
		return a
	}
	return v
}

func init() {
	// ------------------------------------------------------------------ C12
	register("C12", func(c *engine.Ctx) {
		c.Rule = "random schemas (all features, titles, numeric-looking keys) x random option sets; each generated: three times in one process, from files whose objects have their keys in three different random orders, from a relocated directory, and (a sample) by the CLI binary in separate processes; all outputs must be byte-identical under the same names. Colliding names: sets of definition / property names that normalise to one identifier, with different content, generated 30 times in one process with shuffled key orders. Repeated branches: allOf / anyOf listing one definition twice next to a branch that disagrees on first-wins keywords, 30 generations each. Resolve-extension order: an extension-less reference with candidate files .json / .yaml / .yml of different content, three orders of the extension list: the first listed wins, 30 generations each. Mapping order: sets of 1..4 schema mappings whose ids are pairwise distinct but nearly equal to the schema's $id (trailing # or /, letter case, trailing space, prefix) in EVERY slice order (main.go takes the order from a map): identical outputs, equal to the model's route / rootOverride. Command line in separate processes: the extension-less reference with 2-3 --resolve-extension flags in six orders and spellings (first listed wins where it has its dot), and one invocation with three mapped ids, 13 processes each, byte-identical. Distinct = distinct (option set, schema shape)."
		c.Proofs([]string{"GJS.Props.C12", "GJS.Props.FlatOrder", "GJS.Props.TreeOrder", "GJS.Props.NoPackageState"}, []string{
			"GJS.Props.NoPackageState.library_has_no_package_state", "GJS.Props.NoPackageState.command_flags_listed",
			"GJS.Props.Tree.key_order_unobservable_tree", "GJS.Props.Tree.run_tree_key_order", "GJS.Props.Tree.TreeSame.of_perm",
			"GJS.Props.Flat.key_order_unobservable", "GJS.Props.Flat.run_key_order",
			"GJS.Props.C12.sortedKeys_perm", "GJS.Props.C12.alookup_perm", "GJS.Props.C12.visited_perm", "GJS.Props.C12.parseTypeList_order_free",
			"GJS.Props.C12.route_perm", "GJS.Props.C12.rootOverride_perm", "GJS.Props.C12.route_exact",
		})
		factsOf(c, "mapRanges", "packageVars")
		tmp, _ := os.MkdirTemp("", "gjsc12")
		defer os.RemoveAll(tmp)
		fails := 0
		bin := buildCLI(c)
		n := c.N(150, 2500)
		for i := 0; i < n; i++ {
			g := sgen.New(c.R, relOpts())
			root := g.Root("urn:c12")
			// numeric-looking and odd property names
			if c.R.P(0.3) {
				root["properties"].(sgen.M)[core.Pick(c.R, []string{"1", "true", "a b", "Z", "z", "_x"})] = sgen.M{"type": "string"}
			}
			cfg := randomCfg(c)
			content := core.MustJSON(root)
			ref := genSrc(filepath.Join(tmp, fmt.Sprint(i), "a"), "schema.json", content, cfg, "urn:c12")
			variants := map[string]string{}
			variants["repeat-1"] = genSrc(filepath.Join(tmp, fmt.Sprint(i), "a"), "schema.json", content, cfg, "urn:c12")
			variants["repeat-2"] = genSrc(filepath.Join(tmp, fmt.Sprint(i), "a"), "schema.json", content, cfg, "urn:c12")
			for k := 0; k < 3; k++ {
				var buf bytes.Buffer
				shuffledJSON(c.R, root, &buf)
				variants[fmt.Sprintf("shuffled-%d", k)] = genSrc(filepath.Join(tmp, fmt.Sprint(i), fmt.Sprintf("s%d", k)), "schema.json", buf.Bytes(), cfg, "urn:c12")
			}
			variants["relocated"] = genSrc(filepath.Join(tmp, fmt.Sprint(i), "deep", "er", "dir"), "schema.json", content, cfg, "urn:c12")
			if bin != "" && i%10 == 0 && !strings.HasPrefix(ref, "ERR") {
				// the CLI in two separate processes with a different key order each
				for k := 0; k < 2; k++ {
					wd := filepath.Join(tmp, fmt.Sprint(i), fmt.Sprintf("cli%d", k))
					_ = os.MkdirAll(wd, 0o755)
					var buf bytes.Buffer
					shuffledJSON(c.R, root, &buf)
					_ = os.WriteFile(filepath.Join(wd, "schema.json"), buf.Bytes(), 0o644)
					args := []string{"-p", cfg.Pkg, "--schema-root-type", "urn:c12=Root", "--schema-package", "urn:c12=" + cfg.Pkg, "--schema-output", "urn:c12=-"}
					if cfg.ExtraImports {
						args = append(args, "-e")
					}
					if cfg.MinSizedInts {
						args = append(args, "--min-sized-ints")
					}
					if cfg.OnlyModels {
						args = append(args, "--only-models")
					}
					if len(cfg.Caps) > 0 {
						args = append(args, "--capitalization", strings.Join(cfg.Caps, ","))
					}
					args = append(args, "--tags", strings.Join(cfg.Tags, ","), "schema.json")
					res := runCLI(bin, wd, "", args...)
					variants[fmt.Sprintf("cli-process-%d", k)] = res.Stdout
					if res.Exit != 0 {
						variants[fmt.Sprintf("cli-process-%d", k)] = "ERR exit " + fmt.Sprint(res.Exit) + " " + res.Stderr
					}
				}
			}
			c.Eval(fmt.Sprintf("%v|%v|%v|%d|%s", cfg.ExtraImports, cfg.OnlyModels, cfg.MinSizedInts, len(cfg.Tags), classOfDoc(string(content))))
			for _, name := range core.SortedKeys(variants) {
				c.Count("variants", strings.SplitN(name, "-", 2)[0])
				if variants[name] != ref {
					fails++
					if fails <= 3 {
						c.Fail("oracle", "the generated bytes differ for the same schema content and options ("+name+")",
							M{"kind": "relational", "variant": name, "cfg": cfg, "schema": string(content), "reference_output": clip(ref, 2000), "variant_output": clip(variants[name], 2000)}, false)
					}
				}
			}
			if len(c.Samples) < 4 {
				c.Sample(M{"schema": clip(string(content), 300), "cfg": cfg, "variants": core.SortedKeys(variants)})
			}
		}
		c.Programs += n
		// names that collide after normalisation, with different content: which one gets the bare name and which the
		// suffix must not depend on map iteration order — 30 generations each in this process (a fresh iteration order
		// every time)
		collSets := [][]string{{"unit-km", "unit_km"}, {"fooBar", "FooBar"}, {"a b", "a-b", "a_b"}, {"x1", "X1", "x_1"}, {"license", "license+"}}
		for ci, set := range collSets {
			for _, where := range []string{"definitions", "properties"} {
				holder := sgen.M{}
				props := sgen.M{}
				for k, nm := range set {
					node := sgen.M{"type": "object", "properties": sgen.M{fmt.Sprintf("f%d", k): sgen.M{"type": "integer"}}, "required": []any{fmt.Sprintf("f%d", k)}}
					holder[nm] = node
					if where == "definitions" {
						props[fmt.Sprintf("p%d", k)] = sgen.M{"$ref": "#/$defs/" + nm}
					}
				}
				root := sgen.M{"$id": "urn:c12", "type": "object"}
				if where == "definitions" {
					root["$defs"], root["properties"] = holder, props
				} else {
					root["properties"] = holder
				}
				content := core.MustJSON(root)
				cfg := core.DefaultCfg()
				cfg.Tags = []string{"json"}
				dir := filepath.Join(tmp, fmt.Sprintf("coll%d-%s", ci, where))
				ref := genSrc(dir, "schema.json", content, cfg, "urn:c12")
				for rep := 0; rep < 30; rep++ {
					var buf bytes.Buffer
					shuffledJSON(c.R, root, &buf)
					got := genSrc(filepath.Join(dir, fmt.Sprint(rep)), "schema.json", buf.Bytes(), cfg, "urn:c12")
					c.Eval(fmt.Sprintf("collision-order|%d|%s|%v", ci, where, got == ref))
					if got != ref {
						fails++
						if fails <= 3 {
							c.Fail("oracle", fmt.Sprintf("colliding names %v (%s): repetition %d of the same generation gives other bytes", set, where, rep),
								M{"kind": "relational", "variant": "repeat", "cfg": cfg, "schema": string(content), "reference_output": clip(ref, 1500), "variant_output": clip(got, 1500)}, false)
						}
						break
					}
				}
			}
		}
		c.Programs += 2 * len(collSets)
		// defaults that the literal printer treats specially (repeated empty arrays / objects inside one element, the same
		// sub-value twice, nested empties) next to a scalar default, generated 30 times in ONE process: the printer's
		// package-level configuration must not drift between generations
		for di, dflt := range []any{
			[]any{sgen.M{"allow": []any{}, "deny": []any{}}}, []any{[]any{}, []any{}}, []any{sgen.M{"a": sgen.M{}, "b": sgen.M{}}},
			[]any{sgen.M{"x": []any{1}, "y": []any{1}}}, sgen.M{"allow": []any{}, "deny": []any{}, "n": 1}, []any{"s", "s"}, []any{[]any{[]any{}}, []any{[]any{}}},
		} {
			var node sgen.M
			if _, isObj := dflt.(sgen.M); isObj {
				node = sgen.M{"type": "object", "default": dflt}
			} else {
				node = sgen.M{"type": "array", "default": dflt}
			}
			for _, scalarFirst := range []bool{true, false} {
				props := sgen.M{"filters": node, "zname": sgen.M{"type": "string", "default": "anonymous"}}
				if scalarFirst {
					props = sgen.M{"zfilters": node, "aname": sgen.M{"type": "string", "default": "anonymous"}}
				}
				root := sgen.M{"$id": "urn:c12", "type": "object", "properties": props}
				content := core.MustJSON(root)
				cfg := core.DefaultCfg()
				cfg.Tags = []string{"json"}
				dir := filepath.Join(tmp, fmt.Sprintf("dflt%d-%v", di, scalarFirst))
				ref := genSrc(dir, "schema.json", content, cfg, "urn:c12")
				// … and in a FRESH process (this one has generated thousands of schemas already): its first generation
				// against its second and third, and against this process's
				if self, err := os.Executable(); err == nil {
					fn := filepath.Join(dir, "fresh.json")
					_ = os.WriteFile(fn, content, 0o644)
					cmd := exec.Command(self, "gentwice", fn)
					cmd.Env = core.GoEnv()
					if outb, err := cmd.Output(); err == nil {
						gens := strings.Split(string(outb), "\n=====VERIF-GENERATION-END=====\n")
						for gi := 0; gi+1 < len(gens); gi++ {
							c.Eval(fmt.Sprintf("default-literals-fresh-process|%d|%v|%d", di, scalarFirst, gi))
							if gens[gi] != ref {
								fails++
								if fails <= 3 {
									c.Fail("oracle", fmt.Sprintf("a default with repeated empty values (%s): generation %d of a fresh process differs from the same generation in a process that has generated before", clip(string(core.MustJSON(dflt)), 60), gi+1),
										M{"kind": "relational", "variant": "fresh-process", "cfg": cfg, "schema": string(content), "reference_output": clip(ref, 1500), "variant_output": clip(gens[gi], 1500)}, false)
								}
								break
							}
						}
					}
				}
				for rep := 0; rep < 30; rep++ {
					got := genSrc(filepath.Join(dir, fmt.Sprint(rep)), "schema.json", content, cfg, "urn:c12")
					c.Eval(fmt.Sprintf("default-literals|%d|%v|%v", di, scalarFirst, got == ref))
					if got != ref {
						fails++
						if fails <= 3 {
							c.Fail("oracle", fmt.Sprintf("a default with repeated empty values (%s): repetition %d of the same generation in one process gives other bytes", clip(string(core.MustJSON(dflt)), 60), rep+1),
								M{"kind": "relational", "variant": "repeat", "cfg": cfg, "schema": string(content), "reference_output": clip(ref, 1500), "variant_output": clip(got, 1500)}, false)
						}
						break
					}
				}
			}
		}
		c.Programs += 14
		// the same definition listed TWICE among the branches of an allOf / anyOf, next to a branch that disagrees with
		// it on first-wins keywords (description, a shared member's limits): whatever de-duplicates or indexes the
		// branches must keep their order — 30 generations each
		for ri, kw := range []string{"allOf", "anyOf"} {
			for oi, order := range [][]string{{"Base", "Ext", "Base"}, {"Ext", "Base", "Ext"}, {"Base", "Base", "Ext"}, {"Ext", "Base", "Base", "Ext"}} {
				defs := sgen.M{
					"Base": sgen.M{"type": "object", "description": "Base part.", "properties": sgen.M{"id": sgen.M{"type": "string", "minLength": 3, "description": "base id"}}, "required": []any{"id"}},
					"Ext":  sgen.M{"type": "object", "description": "Ext part.", "properties": sgen.M{"id": sgen.M{"type": "string", "minLength": 5, "description": "ext id"}, "more": sgen.M{"type": "integer"}}, "required": []any{"id"}},
				}
				var branches []any
				for _, d := range order {
					branches = append(branches, sgen.M{"$ref": "#/$defs/" + d})
				}
				root := sgen.M{"$id": "urn:c12", "type": "object", "$defs": defs, "properties": sgen.M{"thing": sgen.M{kw: branches}}}
				content := core.MustJSON(root)
				cfg := core.DefaultCfg()
				cfg.Tags = []string{"json"}
				dir := filepath.Join(tmp, fmt.Sprintf("rep%d-%d", ri, oi))
				ref := genSrc(dir, "schema.json", content, cfg, "urn:c12")
				for rep := 0; rep < 30; rep++ {
					got := genSrc(filepath.Join(dir, fmt.Sprint(rep)), "schema.json", content, cfg, "urn:c12")
					c.Eval(fmt.Sprintf("repeated-branch|%s|%d|%v", kw, oi, got == ref))
					if got != ref {
						fails++
						if fails <= 3 {
							c.Fail("oracle", fmt.Sprintf("%s listing a definition twice (%v): repetition %d of the same generation gives other bytes", kw, order, rep),
								M{"kind": "relational", "variant": "repeat", "cfg": cfg, "schema": string(content), "reference_output": clip(ref, 1500), "variant_output": clip(got, 1500)}, false)
						}
						break
					}
				}
			}
		}
		c.Programs += 8
		// a definition that asks for the name an anyOf property already took, and whose schema equals SEVERAL of the
		// branch types declared under numeric suffixes (Root.item: anyOf of n object branches that differ only in the
		// definition they refer to; $defs.RootItem of the same shape): which declaration it re-uses must not vary
		for nb := 2; nb <= 4; nb++ {
			for _, kw := range []string{"anyOf", "allOf"} {
				defs := sgen.M{"Product": sgen.M{"type": "object", "properties": sgen.M{"sku": sgen.M{"type": "string"}}}}
				var branches []any
				for b := 0; b < nb; b++ {
					dn := fmt.Sprintf("Kind%c", 'A'+b)
					defs[dn] = sgen.M{"type": "object", "properties": sgen.M{fmt.Sprintf("f%d", b): sgen.M{"type": "integer"}}}
					branches = append(branches, sgen.M{"type": "object", "properties": sgen.M{"product": sgen.M{"$ref": "#/$defs/" + dn}}, "required": []any{"product"}})
				}
				// the definition lives in a second file, so that it is generated when the reference is reached — after
				// the property `item` has taken the name
				common := core.MustJSON(sgen.M{"$schema": "x", "$id": "urn:c12:common", "$defs": sgen.M{
					"RootItem": sgen.M{"type": "object", "properties": sgen.M{"product": sgen.M{"$ref": "#/$defs/Product"}}, "required": []any{"product"}},
					"Product":  sgen.M{"type": "object", "properties": sgen.M{"sku": sgen.M{"type": "string"}}}}})
				root := sgen.M{"$id": "urn:c12", "type": "object", "$defs": defs,
					"properties": sgen.M{"item": sgen.M{kw: branches}, "legacyItem": sgen.M{"$ref": "common.json#/$defs/RootItem"}}}
				content := core.MustJSON(root)
				cfg := core.DefaultCfg()
				cfg.Tags = []string{"json"}
				cfg.RootType = "Root"
				dir := filepath.Join(tmp, fmt.Sprintf("taken%d-%s", nb, kw))
				_ = os.MkdirAll(dir, 0o755)
				_ = os.WriteFile(filepath.Join(dir, "common.json"), common, 0o644)
				ref := genSrc(dir, "schema.json", content, cfg, "urn:c12")
				for rep := 0; rep < 40; rep++ {
					rd := filepath.Join(dir, fmt.Sprint(rep))
					_ = os.MkdirAll(rd, 0o755)
					_ = os.WriteFile(filepath.Join(rd, "common.json"), common, 0o644)
					got := genSrc(rd, "schema.json", content, cfg, "urn:c12")
					c.Eval(fmt.Sprintf("taken-name-equal-to-several|%s|%d|%v", kw, nb, got == ref))
					if got != ref {
						fails++
						if fails <= 3 {
							c.Fail("oracle", fmt.Sprintf("a definition equal to several suffixed declarations (%s of %d branches): repetition %d of the same generation gives other bytes", kw, nb, rep),
								M{"kind": "relational", "variant": "repeat", "cfg": cfg, "schema": string(content), "files": M{"common.json": string(common)}, "reference_output": clip(ref, 1500), "variant_output": clip(got, 1500)}, false)
						}
						break
					}
				}
				c.Programs++
			}
		}
		// SEVERAL entries where tests have one: required names that are not declared properties (next to a schema-valued or
		// boolean additionalProperties, with and without declared members), several undeclared definitions, several
		// capitalizations — whatever the generator does with each list, it does it in the same order every time
		for li, sch := range []sgen.M{
			{"type": "object", "properties": sgen.M{"name": sgen.M{"type": "string"}}, "additionalProperties": sgen.M{"type": "string"}, "required": []any{"name", "region", "owner", "zone", "team"}},
			{"type": "object", "properties": sgen.M{"name": sgen.M{"type": "string"}}, "additionalProperties": true, "required": []any{"region", "owner", "zone"}},
			{"type": "object", "properties": sgen.M{"name": sgen.M{"type": "string"}}, "required": []any{"zeta", "alpha", "name", "mid"}},
			{"type": "object", "additionalProperties": sgen.M{"type": "integer"}, "required": []any{"b", "a", "c"}},
			{"type": "object", "properties": sgen.M{"o": sgen.M{"type": "object", "properties": sgen.M{"k": sgen.M{"type": "integer"}}, "additionalProperties": sgen.M{"type": "number"}, "required": []any{"k", "x", "y", "z"}}}},
		} {
			sch["$id"] = "urn:c12"
			content := core.MustJSON(sch)
			for _, extra := range []bool{false, true} {
				cfg := core.DefaultCfg()
				cfg.RootType = "Root"
				cfg.ExtraImports = extra
				dir := filepath.Join(tmp, fmt.Sprintf("lists%d-%v", li, extra))
				ref := genSrc(dir, "schema.json", content, cfg, "urn:c12")
				for rep := 0; rep < 40; rep++ {
					got := genSrc(filepath.Join(dir, fmt.Sprint(rep)), "schema.json", content, cfg, "urn:c12")
					c.Eval(fmt.Sprintf("several-entries|%d|%v|%v", li, extra, got == ref))
					if got != ref {
						fails++
						if fails <= 3 {
							c.Fail("oracle", fmt.Sprintf("a schema with several undeclared required names: repetition %d of the same generation gives other bytes", rep),
								M{"kind": "relational", "variant": "repeat", "cfg": cfg, "schema": string(content), "reference_output": clip(ref, 1500), "variant_output": clip(got, 1500)}, false)
						}
						break
					}
				}
				c.Programs++
			}
		}
		// --capitalization lists whose entries are EQUAL IGNORING CASE (ID / Id, URL / Url / url), in both orders: the first
		// listed spelling is used, in every generation
		for ci, caps := range [][]string{{"ID", "Id"}, {"Id", "ID"}, {"URL", "Url", "url"}, {"url", "URL"}, {"ID", "Id", "URL", "Url"}} {
			sch := core.MustJSON(sgen.M{"$id": "urn:c12", "type": "object", "properties": sgen.M{"id": sgen.M{"type": "string"}, "parent_id": sgen.M{"type": "integer"},
				"home-url": sgen.M{"type": "string"}, "owner": sgen.M{"type": "object", "properties": sgen.M{"user-id": sgen.M{"type": "string"}, "url": sgen.M{"type": "string"}}}}})
			cfg := core.DefaultCfg()
			cfg.RootType = "Root"
			cfg.Caps = caps
			dir := filepath.Join(tmp, fmt.Sprintf("caps%d", ci))
			ref := genSrc(dir, "schema.json", sch, cfg, "urn:c12")
			for rep := 0; rep < 60; rep++ {
				got := genSrc(filepath.Join(dir, fmt.Sprint(rep)), "schema.json", sch, cfg, "urn:c12")
				c.Eval(fmt.Sprintf("case-equal-capitalizations|%d|%v", ci, got == ref))
				if got != ref {
					fails++
					if fails <= 3 {
						c.Fail("oracle", fmt.Sprintf("capitalizations %v: repetition %d of the same generation gives other bytes", caps, rep),
							M{"kind": "relational", "variant": "repeat", "cfg": cfg, "schema": string(sch), "reference_output": clip(ref, 1500), "variant_output": clip(got, 1500)}, false)
					}
					break
				}
			}
			c.Programs++
		}
		// an extension-less reference with SEVERAL candidate files of different content: the first listed resolve
		// extension wins, every time (30 generations per order of the extension list)
		for oi, exts := range [][]string{{".json", ".yaml"}, {".yaml", ".json"}, {".yml", ".json", ".yaml"}} {
			dir := filepath.Join(tmp, fmt.Sprintf("ext%d", oi))
			_ = os.MkdirAll(dir, 0o755)
			for _, e := range []string{".json", ".yaml", ".yml"} {
				body := sgen.M{"$id": "urn:item" + e, "title": "Item", "type": "object", "properties": sgen.M{"name": sgen.M{"type": "string"}, "from" + strings.TrimPrefix(e, "."): sgen.M{"type": "integer"}}}
				_ = os.WriteFile(filepath.Join(dir, "item"+e), core.MustJSON(body), 0o644)
			}
			mainSchema := core.MustJSON(sgen.M{"$id": "urn:c12", "type": "object", "properties": sgen.M{"item": sgen.M{"$ref": "./item"}}})
			cfg := core.DefaultCfg()
			cfg.Tags = []string{"json"}
			cfg.ResolveExtensions = exts
			ref := genSrc(dir, "main.json", mainSchema, cfg, "urn:c12")
			want := "From" + exts[0][1:] + " "
			c.Eval(fmt.Sprintf("resolve-extension-order|%v|first-wins=%v", exts, strings.Contains(ref, want)))
			if !strings.Contains(ref, want) {
				fails++
				c.Fail("oracle", fmt.Sprintf("resolve extensions %v: the extension-less reference was not resolved with the first listed extension (expected a field %s)", exts, want),
					M{"kind": "relational", "variant": "resolve-extension-order", "cfg": cfg, "reference_output": clip(ref, 1500)}, false)
			}
			for rep := 0; rep < 30; rep++ {
				got := genSrc(dir, "main.json", mainSchema, cfg, "urn:c12")
				if got != ref {
					fails++
					c.Fail("oracle", fmt.Sprintf("resolve extensions %v: repetition %d of the same generation resolves the extension-less reference to another file", exts, rep),
						M{"kind": "relational", "variant": "resolve-extension-order", "cfg": cfg, "reference_output": clip(ref, 1500), "variant_output": clip(got, 1500)}, false)
					break
				}
			}
		}
		// the same through the command line, in separate processes: the order of repeated flags is the user's, not a
		// map's.  (a) the extension-less reference above with two or three --resolve-extension flags, every order of
		// the flags; (b) an invocation with three mapped schema ids; each 12 processes, byte-identical outputs, and for
		// (a) the first listed extension wins
		if bin != "" {
			cliDir := filepath.Join(tmp, "cliext")
			_ = os.MkdirAll(cliDir, 0o755)
			for _, e := range []string{".json", ".yaml", ".yml"} {
				body := sgen.M{"$id": "urn:item" + e, "title": "Item", "type": "object", "properties": sgen.M{"name": sgen.M{"type": "string"}, "from" + strings.TrimPrefix(e, "."): sgen.M{"type": "integer"}}}
				_ = os.WriteFile(filepath.Join(cliDir, "item"+e), core.MustJSON(body), 0o644)
			}
			_ = os.WriteFile(filepath.Join(cliDir, "main.json"), core.MustJSON(sgen.M{"$id": "urn:c12", "type": "object", "properties": sgen.M{"item": sgen.M{"$ref": "./item"}}}), 0o644)
			for k, id := range []string{"a", "b", "c"} {
				_ = os.WriteFile(filepath.Join(cliDir, "m"+id+".json"), core.MustJSON(sgen.M{"$id": "urn:m:" + id, "type": "object", "properties": sgen.M{"v": sgen.M{"type": []string{"string", "integer", "boolean"}[k]}}}), 0o644)
			}
			type inv struct {
				name string
				args []string
				want string
			}
			var invs []inv
			for _, exts := range [][]string{{".json", ".yaml"}, {".yaml", ".json"}, {".yml", ".json", ".yaml"}, {".yaml", ".yml", ".json"}, {"json", "yaml"}, {"yml", "yaml", "json"}} {
				a := []string{"-p", "main", "-o", "-"}
				for _, e := range exts {
					a = append(a, "--resolve-extension", e)
				}
				w := ""
				if strings.HasPrefix(exts[0], ".") {
					w = "From" + exts[0][1:] + " "
				}
				invs = append(invs, inv{fmt.Sprintf("resolve-extension flags %v", exts), append(a, "main.json"), w})
			}
			invs = append(invs, inv{"three mapped ids", []string{"-p", "example.com/x/main", "-o", "-",
				"--schema-package", "urn:m:a=example.com/x/main", "--schema-output", "urn:m:a=-", "--schema-root-type", "urn:m:a=Alpha",
				"--schema-package", "urn:m:b=example.com/x/main", "--schema-output", "urn:m:b=-", "--schema-root-type", "urn:m:b=Beta",
				"--schema-root-type", "urn:m:c=Gamma", "ma.json", "mb.json", "mc.json"}, ""})
			for _, iv := range invs {
				first := runCLI(bin, cliDir, "", iv.args...)
				c.Eval("cli-processes|" + iv.name)
				c.Count("cli repeated processes", fmt.Sprintf("%s: exit %d, %d bytes", iv.name, first.Exit, len(first.Stdout)))
				if first.Exit == 0 && iv.want != "" && !strings.Contains(first.Stdout, iv.want) {
					fails++
					c.Fail("oracle", fmt.Sprintf("command line, %s: the extension-less reference was not resolved with the first listed extension (expected a field %s)", iv.name, iv.want),
						M{"kind": "cli-repeat", "args": iv.args, "files": listDir(cliDir), "stdout": clip(first.Stdout, 1500), "stderr": clip(first.Stderr, 300)}, false)
					continue
				}
				for rep := 0; rep < 12; rep++ {
					got := runCLI(bin, cliDir, "", iv.args...)
					if got.Stdout != first.Stdout || got.Exit != first.Exit {
						fails++
						c.Fail("oracle", fmt.Sprintf("command line, %s: process %d of the same invocation writes other bytes", iv.name, rep+2),
							M{"kind": "cli-repeat", "args": iv.args, "files": listDir(cliDir), "first_stdout": clip(first.Stdout, 1500), "other_stdout": clip(got.Stdout, 1500)}, false)
						break
					}
				}
			}
			c.Programs += len(invs)
			// SEVERAL OUTPUT FILES that carry the same texts at different depths: the same description on a type (comment at
			// indent 0) in one schema and on a member (indent 1) in the others, with a word ending at column 76..83 of the first
			// line, so that the line breaks depend on the indent.  60 processes; every output file has the same bytes each time
			wrapDir := filepath.Join(tmp, "cliwrap")
			_ = os.MkdirAll(wrapDir, 0o755)
			defsA, propsB, propsC := sgen.M{}, sgen.M{}, sgen.M{}
			for L := 74; L <= 84; L++ {
				text := strings.Repeat("w", L-4) + " end and some more words that follow the first line of the comment text"
				text2 := "A lorem ipsum lorem ipsum " + strings.Repeat("x", L-26) + " tail of the text, long enough to need a third line when it is wrapped at eighty columns or so"
				defsA[fmt.Sprintf("D%d", L)] = sgen.M{"type": "object", "description": text, "properties": sgen.M{"v": sgen.M{"type": "string", "description": text2}}}
				propsB[fmt.Sprintf("p%d", L)] = sgen.M{"type": "string", "description": text}
				propsB[fmt.Sprintf("q%d", L)] = sgen.M{"type": "object", "description": text2, "properties": sgen.M{"v": sgen.M{"type": "integer"}}}
				propsC[fmt.Sprintf("r%d", L)] = sgen.M{"type": "array", "items": sgen.M{"type": "integer"}, "description": text}
			}
			_ = os.WriteFile(filepath.Join(wrapDir, "wa.json"), core.MustJSON(sgen.M{"$id": "urn:w:a", "type": "object", "properties": sgen.M{"n": sgen.M{"type": "integer"}}, "$defs": defsA}), 0o644)
			_ = os.WriteFile(filepath.Join(wrapDir, "wb.json"), core.MustJSON(sgen.M{"$id": "urn:w:b", "type": "object", "properties": propsB}), 0o644)
			_ = os.WriteFile(filepath.Join(wrapDir, "wc.json"), core.MustJSON(sgen.M{"$id": "urn:w:c", "type": "object", "properties": propsC}), 0o644)
			wrapArgs := []string{"--tags", "json"}
			for _, id := range []string{"a", "b", "c"} {
				wrapArgs = append(wrapArgs, "--schema-package", "urn:w:"+id+"=example.com/w/"+id, "--schema-output", "urn:w:"+id+"=out/"+id+"/gen.go", "--schema-root-type", "urn:w:"+id+"=Root")
			}
			wrapArgs = append(wrapArgs, "wa.json", "wb.json", "wc.json")
			outputsOf := func(r cliResult) string {
				var sb strings.Builder
				for _, id := range []string{"a", "b", "c"} {
					sb.WriteString("=== out/" + id + "/gen.go\n" + r.Files["out/"+id+"/gen.go"])
				}
				return fmt.Sprintf("exit %d\n%s", r.Exit, sb.String())
			}
			firstW := outputsOf(runCLI(bin, wrapDir, "", wrapArgs...))
			c.Eval("cli-processes|several output files, shared comment texts")
			c.Count("cli repeated processes", fmt.Sprintf("several output files with shared comment texts: %d bytes", len(firstW)))
			if !strings.HasPrefix(firstW, "exit 0\n") || !strings.Contains(firstW, "type D80 struct") {
				fails++
				c.Fail("oracle", "command line, several output files with shared comment texts: the invocation fails or writes no files: "+clip(firstW, 300), M{"kind": "cli-repeat", "args": wrapArgs, "files": listDir(wrapDir)}, false)
			} else {
				for rep := 0; rep < 60; rep++ {
					_ = os.RemoveAll(filepath.Join(wrapDir, "out"))
					got := outputsOf(runCLI(bin, wrapDir, "", wrapArgs...))
					if got != firstW {
						fails++
						at := 0
						for at < len(got) && at < len(firstW) && got[at] == firstW[at] {
							at++
						}
						lo := at - 300
						if lo < 0 {
							lo = 0
						}
						_ = os.RemoveAll(filepath.Join(wrapDir, "out"))
						c.Fail("oracle", fmt.Sprintf("command line, several output files with shared comment texts: process %d of the same invocation writes other bytes", rep+2),
							M{"kind": "cli-repeat", "args": wrapArgs, "files": listDir(wrapDir), "first_differs_at": at, "first_outputs": clip(firstW[lo:], 900), "other_outputs": clip(got[lo:], 900)}, false)
						break
					}
				}
			}
			c.Programs++
		}
		mappingOrderStream(c, &fails)
		c.FactsVerdict(fails > 0)
	})

	// ------------------------------------------------------------------ C13
	register("C13", func(c *engine.Ctx) {
		c.Rule = "random schemas (all features incl. $defs/$ref, titles, numeric- and boolean-looking property names) x every combination of the re-spellings {$id->id, $defs->definitions, #/$defs/->#/definitions/ (and upper-case prefix), type string -> one-element list} x {JSON, block YAML, flow YAML with non-string mapping keys, JSON with every non-ASCII character escaped, the JSON bytes (plain and escaped) under a .yaml name, YAML with every scalar double-quoted, JSON in another layout of the same tokens (spaces around every ':' and ',', CR LF, tabs; also under a .yaml name), JSON with the first character of every key written as a \\u escape}; descriptions, enum members and defaults with text that needs escaping (non-ASCII, apostrophe, quotes, backslash, DEL, U+1F600); strings that look like other scalars (1e3, 0x10, 1_000, .inf, yes, ~, 2001-01-01, 1:20, …) as enum members, default, title, pattern and required property name; plus true vs {} as the anything-schema for additionalProperties / items; the root type name is fixed by --schema-root-type so that the file extension does not enter; plus one document whose structurally equal sites (a nested path colliding with a flat name, an allOf branch, array items) spell the same pointer differently (#/$defs/, #/definitions/, #/$Defs/, #/DEFINITIONS/; all 16 pairs under either container keyword). All outputs must be byte-identical to the canonical JSON spelling's. Distinct = distinct (re-spelling mask, format, schema shape)."
		c.Proofs([]string{"GJS.Props.C13", "GJS.Props.C10"}, []string{
			"GJS.Props.C13.type_string_or_list", "GJS.Props.C13.true_is_empty_schema", "GJS.Props.C13.id_fallback", "GJS.Props.C13.defs_fallback",
			"GJS.Props.C10.extractRef_prefix_equiv",
		})
		tmp, _ := os.MkdirTemp("", "gjsc13")
		defer os.RemoveAll(tmp)
		fails := 0
		n := c.N(120, 2000)
		for i := 0; i < n; i++ {
			g := sgen.New(c.R, relOpts())
			root := g.Root("urn:c13")
			props := root["properties"].(sgen.M)
			if c.R.P(0.5) {
				// text that needs escaping in one spelling or another: non-ASCII, apostrophe, quotes, backslash, |, DEL,
				// a supplementary-plane character
				texts := []string{"München", "Zürich", "customer's", "A|B", "tab\there", "quote\"q", "back\\slash", "日本", "smile 😀", "del\u007f", "plain"}
				root["description"] = core.Pick(c.R, texts) + " / " + core.Pick(c.R, texts)
				props["city"] = sgen.M{"type": "string", "enum": toAnyS(core.Sample(c.R, texts, 3)), "description": core.Pick(c.R, texts)}
				props["note"] = sgen.M{"type": "string", "default": core.Pick(c.R, texts)}
			}
			if c.R.P(0.4) {
				props[core.Pick(c.R, []string{"1", "true", "2.5", "007", "no"})] = sgen.M{"type": "string"}
			}
			if c.R.P(0.5) {
				// STRINGS that look like other YAML / JSON scalars (exponent forms, hex, octal, underscores, signs, special
				// floats, booleans of YAML 1.1, null, dates, sexagesimals): as enum members, default, title, pattern, a
				// required property name — a string stays a string in every spelling
				looks := []string{"1e3", "7e21", "-2E+5", "1E-2", "0x10", "0o17", "017", "1_000", "+1", ".5", "5.", "1.0", "-0", "NaN", ".inf", "-.INF", "yes", "No", "on", "OFF", "y", "n", "null", "~", "Null", "2001-01-01", "12:30:45", "1:20", "true", "False", "0b101", "1e400", "٣"}
				ls := core.Sample(c.R, looks, 4)
				props["looks"] = sgen.M{"type": "string", "enum": toAnyS(ls[:3]), "default": ls[0], "title": ls[1]}
				props["pat"] = sgen.M{"type": "string", "pattern": ls[2], "description": ls[3]}
				props[ls[3]] = sgen.M{"type": "string", "default": ls[2]}
				req, _ := root["required"].([]any)
				root["required"] = append(req, ls[3])
			}
			if c.R.P(0.3) {
				props["anything"] = sgen.M{"type": "array", "items": true}
			}
			cfg := randomCfg(c)
			ref := genSrc(filepath.Join(tmp, fmt.Sprint(i), "ref"), "schema.json", core.MustJSON(root), cfg, "urn:c13")
			if strings.HasPrefix(ref, "ERR") {
				continue
			}
			for mask := 0; mask < 16; mask++ {
				if !c.Thorough() && mask != 15 && c.R.P(0.6) {
					continue
				}
				sp := respell(root, mask, true)
				if c.R.P(0.3) {
					// true <-> {} as the anything-schema
					if p, ok := sp.(map[string]any)["properties"].(map[string]any)["anything"].(map[string]any); ok {
						p["items"] = map[string]any{}
					}
				}
				if mask&4 != 0 && c.R.P(0.3) {
					sp = upperRefPrefix(sp)
				}
				for _, form := range []string{"json", "yaml-block", "yaml-flow", "json-escaped", "json-as-yaml", "json-escaped-as-yaml", "yaml-double-quoted", "json-spaced", "json-key-escaped", "json-spaced-as-yaml"} {
					var content []byte
					file := "schema.json"
					switch form {
					case "json":
						content = core.MustJSON(sp)
					case "yaml-block":
						content = toYAML(sp, false)
						file = "schema.yaml"
					case "yaml-flow":
						content = toYAML(sp, true)
						file = "schema.yml"
					case "json-escaped":
						// every non-ASCII character and the apostrophe as \uXXXX escapes: the same JSON document
						content = asciiEscapeJSON(core.MustJSON(sp))
					case "json-as-yaml":
						content = core.MustJSON(sp) // JSON is YAML
						file = "schema.yaml"
					case "json-escaped-as-yaml":
						content = asciiEscapeJSON(core.MustJSON(sp))
						file = "schema.yaml"
					case "json-spaced":
						// the same tokens in another layout: spaces around every ':' and ',', CR LF line ends, tab indentation
						content = layoutJSON(core.MustJSON(sp), "spaced")
					case "json-key-escaped":
						// the first character of every key as a \u00XX escape: the same key
						content = layoutJSON(core.MustJSON(sp), "key-escaped")
					case "json-spaced-as-yaml":
						content = layoutJSON(core.MustJSON(sp), "spaced")
						file = "schema.yaml"
					case "yaml-double-quoted":
						content = toYAMLQuoted(sp)
						file = "schema.yaml"
					}
					out := genSrc(filepath.Join(tmp, fmt.Sprint(i), fmt.Sprintf("m%d-%s", mask, form)), file, content, cfg, "urn:c13")
					c.Eval(fmt.Sprintf("%d|%s|%s", mask, form, classOfDoc(string(core.MustJSON(root)))))
					c.Count("respelling", fmt.Sprintf("mask=%d %s", mask, form))
					if out != ref {
						fails++
						if fails <= 3 {
							c.Fail("oracle", fmt.Sprintf("an equivalent spelling (mask %d: 1=id 2=definitions 4=#/definitions/ 8=type-as-list; %s) generates different code", mask, form),
								M{"kind": "relational", "cfg": cfg, "canonical": string(core.MustJSON(root)), "respelled": string(content), "canonical_output": clip(ref, 2000), "respelled_output": clip(out, 2000)}, false)
						}
					}
				}
			}
			if len(c.Samples) < 4 {
				c.Sample(M{"schema": clip(string(core.MustJSON(root)), 300), "yaml": clip(string(toYAML(respell(root, 15, true), false)), 300)})
			}
		}
		c.Programs += n
		// Mixed spellings inside ONE document: structurally equal nodes that share one Go declaration (a nested path
		// colliding with a flat name; the same definition name in two files) each contain a reference, and the
		// two sites spell the pointer differently (#/$defs/, #/definitions/, #/$Defs/), under either container
		// keyword: the output must equal that of the uniformly spelled document.
		ptrs := []string{"#/$defs/Country", "#/definitions/Country", "#/$Defs/Country", "#/DEFINITIONS/Country"}
		mixed := func(container, p1, p2 string) []byte {
			addr := func(ptr string) sgen.M {
				return sgen.M{"type": "object", "properties": sgen.M{"street": sgen.M{"type": "string"}, "country": sgen.M{"$ref": ptr}}, "required": []any{"country"}}
			}
			return core.MustJSON(sgen.M{"$id": "urn:c13", "type": "object", container: sgen.M{"Country": sgen.M{"type": "string", "minLength": 2, "maxLength": 2}},
				"properties": sgen.M{"billing": sgen.M{"type": "object", "properties": sgen.M{"address": addr(p1)}}, "billingAddress": addr(p2),
					"ship": sgen.M{"allOf": []any{sgen.M{"$ref": p1}}}, "shipTo": sgen.M{"type": "array", "items": sgen.M{"$ref": p2}}}})
		}
		cfgM := core.DefaultCfg()
		cfgM.RootType = "Order"
		refOut := genSrc(filepath.Join(tmp, "mixed", "ref"), "schema.json", mixed("$defs", ptrs[0], ptrs[0]), cfgM, "urn:c13")
		if strings.HasPrefix(refOut, "ERR") {
			fails++
			c.Fail("oracle", "the mixed-spelling base document does not generate: "+clip(refOut, 300), M{"kind": "relational", "canonical": string(mixed("$defs", ptrs[0], ptrs[0]))}, false)
		} else {
			for _, container := range []string{"$defs", "definitions"} {
				for a, p1 := range ptrs {
					for b, p2 := range ptrs {
						content := mixed(container, p1, p2)
						out := genSrc(filepath.Join(tmp, "mixed", fmt.Sprintf("%s-%d-%d", container[:2], a, b)), "schema.json", content, cfgM, "urn:c13")
						c.Eval(fmt.Sprintf("mixed|%s|%d|%d", container, a, b))
						c.Count("respelling", "mixed pointer spellings in one document")
						if out != refOut {
							fails++
							if fails <= 3 {
								c.Fail("oracle", fmt.Sprintf("two sites of one document spell the same pointer differently (%s and %s, under %s): the generated code differs from the uniformly spelled document", p1, p2, container),
									M{"kind": "relational", "cfg": cfgM, "canonical": string(mixed("$defs", ptrs[0], ptrs[0])), "respelled": string(content), "canonical_output": clip(refOut, 2000), "respelled_output": clip(out, 2000)}, false)
							}
						}
					}
				}
			}
			c.Programs += 32
		}
		// the file extension enters the root type's name when no root type is given: the JSON and the YAML spelling of
		// one schema, saved under names that differ only in the (resolve) extension — one dot or several — must give
		// the same bytes, as the input file and as a file reached through an extension-less reference
		for ei, exts := range [][2]string{{".json", ".yaml"}, {".schema.json", ".schema.yaml"}, {".v1.json", ".v1.yml"}, {".json", ".schema.yaml"}} {
			for si, stem := range []string{"thing", "my-item", "geo.point", "a.b.c"} {
				g := sgen.New(c.R, relOpts())
				root := g.Root("urn:c13:x")
				delete(root, "title")
				cfg := core.DefaultCfg()
				cfg.Tags = []string{"json"}
				cfg.ResolveExtensions = []string{exts[0], exts[1]}
				dir := filepath.Join(tmp, fmt.Sprintf("extname-%d-%d", ei, si))
				a := genSrc(filepath.Join(dir, "j"), stem+exts[0], core.MustJSON(root), cfg, "")
				b := genSrc(filepath.Join(dir, "y"), stem+exts[1], toYAML(root, false), cfg, "")
				c.Eval(fmt.Sprintf("extension-in-name|%v|%s|%v", exts, stem, a == b))
				if a != b && !strings.HasPrefix(a, "ERR") {
					fails++
					if fails <= 3 {
						c.Fail("oracle", fmt.Sprintf("the same schema saved as %s (JSON) and as %s (YAML) with resolve extensions %v generates different code", stem+exts[0], stem+exts[1], exts),
							M{"kind": "relational", "cfg": cfg, "canonical": string(core.MustJSON(root)), "file_a": stem + exts[0], "file_b": stem + exts[1], "canonical_output": clip(a, 2000), "respelled_output": clip(b, 2000)}, false)
					}
				}
				// … and as the target of an extension-less reference from an unchanged main file
				mainSchema := core.MustJSON(sgen.M{"$id": "urn:c13:main", "type": "object", "properties": sgen.M{"item": sgen.M{"$ref": "./" + stem}}})
				for k, sub := range []string{"rj", "ry"} {
					d := filepath.Join(dir, sub)
					_ = os.MkdirAll(d, 0o755)
					if k == 0 {
						_ = os.WriteFile(filepath.Join(d, stem+exts[0]), core.MustJSON(root), 0o644)
					} else {
						_ = os.WriteFile(filepath.Join(d, stem+exts[1]), toYAML(root, false), 0o644)
					}
				}
				ra := genSrc(filepath.Join(dir, "rj"), "main.json", mainSchema, cfg, "")
				rb := genSrc(filepath.Join(dir, "ry"), "main.json", mainSchema, cfg, "")
				c.Eval(fmt.Sprintf("extension-in-referenced-name|%v|%s|%v", exts, stem, ra == rb))
				if ra != rb && !strings.HasPrefix(ra, "ERR") {
					fails++
					if fails <= 3 {
						c.Fail("oracle", fmt.Sprintf("a file referenced as ./%s, saved as %s (JSON) or as %s (YAML) with resolve extensions %v: the generated code differs", stem, stem+exts[0], stem+exts[1], exts),
							M{"kind": "relational", "cfg": cfg, "canonical": string(core.MustJSON(root)), "main": string(mainSchema), "canonical_output": clip(ra, 2000), "respelled_output": clip(rb, 2000)}, false)
					}
				}
				c.Programs += 4
			}
		}
	})

	// ------------------------------------------------------------------ C16
	register("C16", func(c *engine.Ctx) {
		c.Rule = "random schemas (all features; titles up to 60 characters, enums of up to 12 members) x pairs of option sets differing in exactly one option: --only-models (same type declarations; no func, var, or import besides those types need), --tags (equal after erasing tags), --capitalization / --struct-name-from-title / --schema-root-type (equal after abstracting declared identifiers; --schema-root-type also at the command line: invocations with and without it for a referenced and for the main schema x other per-schema flags {none, package + output, output only, package only} x stdout / -o x one or both files as arguments), --extra-imports (equal after deleting the YAML methods and the yaml import; the JSON behaviour of the two compiled programs is the same on the documents). Distinct = distinct (option, schema shape)."
		c.Proofs([]string{"GJS.Props.C16", "GJS.Props.FlatGen", "GJS.Props.TreeOptions"}, []string{
			"GJS.Props.Tree.tree_extra_imports_same_decls", "GJS.Props.Tree.tree_tags_change_only_tags", "GJS.Props.Tree.tree_only_models_keeps_types", "GJS.Props.Tree.treeDecls_congr",
			"GJS.Props.Flat.run_flat_gen", "GJS.Props.Flat.extra_imports_same_decls", "GJS.Props.Flat.only_models_keeps_type", "GJS.Props.Flat.root_type_changes_only_name", "GJS.Props.Flat.tags_change_only_tags",
			"GJS.Props.C16.minSized_off_is_identity", "GJS.Props.C16.rootName_mapping_wins", "GJS.Props.C16.rootName_title_only_with_flag",
			"GJS.Props.C16.rootType_flag_never_changes_routing", "GJS.Props.C16.rootType_alone_keeps_routing", "GJS.Props.C16.rootType_alone_sets_root", "GJS.Props.C16.package_without_output_is_external",
			"GJS.Props.C16.tags_only_in_tag_text", "GJS.Props.C16.yaml_import_iff_extraImports", "GJS.Props.C16.onlyModels_enum_has_no_methods",
		})
		factsOf(c, "optionReads", "cliOrder")
		tmp, _ := os.MkdirTemp("", "gjsc16")
		defer os.RemoveAll(tmp)
		fails := 0
		n := c.N(150, 2500)
		var behav []*core.PCase
		for i := 0; i < n; i++ {
			o := relOpts()
			g := sgen.New(c.R, o)
			root := g.Root("urn:c16")
			if c.R.P(0.3) {
				root["title"] = core.Pick(c.R, []string{"A title that is rather long and has many words in it, sixty chars", "short", "with-dash and_underscore", "URL of id"})
			}
			if c.R.P(0.3) {
				var vals []any
				for k := 0; k < c.R.Range(8, 12); k++ {
					vals = append(vals, fmt.Sprintf("value%d", k))
				}
				root["properties"].(sgen.M)["big"] = sgen.M{"type": "string", "enum": vals}
			}
			content := core.MustJSON(root)
			base := core.DefaultCfg()
			base.ExtraImports = c.R.P(0.5)
			base.MinSizedInts = c.R.P(0.3)
			dir := filepath.Join(tmp, fmt.Sprint(i))
			full := genSrc(dir, "schema.json", content, base, "urn:c16")
			if strings.HasPrefix(full, "ERR") || strings.HasPrefix(full, "PANIC") {
				continue
			}
			report := func(option, what string, a, b string, cfgB core.Cfg) {
				if os.Getenv("VERIF_DEBUG") != "" && fails == 0 {
					_ = os.WriteFile("/tmp/c16_a.go", []byte(a), 0o644)
					_ = os.WriteFile("/tmp/c16_b.go", []byte(b), 0o644)
				}
				fails++
				if fails <= 3 {
					c.Fail("oracle", "option "+option+": "+what, M{"kind": "relational", "option": option, "schema": string(content), "cfg_a": base, "cfg_b": cfgB, "output_a": clip(a, 30000), "output_b": clip(b, 30000)}, false)
				}
			}
			ck := classOfDoc(string(content))
			// only-models
			om := base
			om.OnlyModels = true
			omOut := genSrc(dir, "schema.json", content, om, "urn:c16")
			c.Eval("only-models|" + ck)
			if typeDeclsOf(omOut) != typeDeclsOf(full) {
				report("--only-models", "the type declarations differ from the full run's", full, omOut, om)
			}
			for _, k := range nonTypeKinds(omOut) {
				if k == "func" || k == "var" || strings.Contains(k, "encoding/json") || strings.Contains(k, "\"fmt\"") || strings.Contains(k, "reflect") || strings.Contains(k, "yaml") || strings.Contains(k, "errors") || strings.Contains(k, "regexp") || strings.Contains(k, "mapstructure") || strings.Contains(k, "strings") || strings.Contains(k, "math") {
					report("--only-models", "the output contains "+k, full, omOut, om)
				}
			}
			// tags
			tg := base
			tg.Tags = core.Pick(c.R, [][]string{{"json"}, {"yaml", "json"}, {"json", "yaml", "mapstructure", "toml"}})
			tgOut := genSrc(dir, "schema.json", content, tg, "urn:c16")
			c.Eval("tags|" + ck)
			if eraseTags(tgOut) != eraseTags(full) {
				report("--tags", "the outputs differ in more than struct tags", full, tgOut, tg)
			}
			// naming options
			for _, nm := range []string{"capitalization", "capitalization-lower-first", "title", "root-type"} {
				nc := base
				switch nm {
				case "capitalization":
					nc.Caps = core.Pick(c.R, [][]string{{"ID"}, {"URL", "ID"}, {"FOO", "Bar"}})
				case "capitalization-lower-first":
					// an entry that starts with a lower-case letter and equals (up to case) the FIRST word of a property
					// name (iOS, eBay, gRPC): the entry is used verbatim, so the field name starts lower-case
					cap := ""
					if props, ok := root["properties"].(sgen.M); ok {
						for _, pn := range core.SortedKeys(props) {
							w := ""
							for _, r := range pn {
								if (r >= 'a' && r <= 'z') || (r >= 'A' && r <= 'Z') {
									w += string(r)
								} else {
									break
								}
							}
							// (names the comparison cannot abstract — library identifiers such as Name, Value — are left out)
							if len(w) >= 2 && !goKeywords[strings.ToUpper(w[:1])+w[1:]] && !goKeywords[w] {
								cap = strings.ToLower(w[:1]) + strings.ToUpper(w[1:])
								break
							}
						}
					}
					if cap == "" {
						continue
					}
					nc.Caps = []string{cap}
				case "title":
					nc.StructNameFromTitle = true
					// a title whose identifier equals a definition's: the root then competes with that definition for
					// the name (listed findings K15 / K21), which is not "changing only the name"
					if t, ok := root["title"].(string); ok {
						tn := generator.VerifIdentifierize(nc.Caps, nil, t)
						collides := false
						for _, kw := range []string{"$defs", "definitions"} {
							if defs, ok := root[kw].(sgen.M); ok {
								for dn := range defs {
									if generator.VerifIdentifierize(nc.Caps, nil, dn) == tn {
										collides = true
									}
								}
							}
						}
						if collides {
							c.Count("c16", "title-names-a-definition (K15/K21 region, skipped)")
							continue
						}
					}
				case "root-type":
					nc.RootType = "CustomRoot"
				}
				ncOut := genSrc(dir, "schema.json", content, nc, "urn:c16")
				c.Eval(nm + "|" + ck)
				if strings.HasPrefix(ncOut, "ERR") {
					report("--"+nm, "generation fails with the option", full, ncOut, nc)
					continue
				}
				if declSet(eraseTags(ncOut), nil, true) != declSet(eraseTags(full), nil, true) {
					// a naming option may merge / split identifier collisions (Foo vs foo): compare declaration counts then
					if countDecls(ncOut) != countDecls(full) {
						c.Count("c16", "naming-changes-collisions")
						continue
					}
					report("--"+nm, "the outputs differ in more than identifiers", full, ncOut, nc)
				}
				if eraseIdentsInTags(ncOut) != eraseIdentsInTags(full) {
					report("--"+nm, "struct tags changed", full, ncOut, nc)
				}
			}
			// extra-imports
			on, off := base, base
			on.ExtraImports, off.ExtraImports = true, false
			onOut := genSrc(dir, "schema.json", content, on, "urn:c16")
			offOut := genSrc(dir, "schema.json", content, off, "urn:c16")
			c.Eval("extra-imports|" + ck)
			if strings.Contains(offOut, "yaml.") || strings.Contains(offOut, "gopkg.in/yaml") || strings.Contains(offOut, "UnmarshalYAML") {
				report("--extra-imports", "YAML code or import appears without the option", onOut, offOut, off)
			}
			isYAML := func(d string) bool {
				return strings.Contains(d, "YAML(") || strings.Contains(d, "gopkg.in/yaml")
			}
			if declSet(onOut, isYAML, false) != declSet(offOut, isYAML, false) {
				report("--extra-imports", "the outputs differ in more than the YAML methods and import", onOut, offOut, off)
			}
			if i%3 == 0 {
				docs := g.Docs(root, 8)
				a := baseCase("c16-extra-on", root, docs)
				a.Cfg.ExtraImports = true
				a.SchemaID = "urn:c16"
				b := baseCase("c16-extra-off", root, docs)
				b.SchemaID = "urn:c16"
				behav = append(behav, a, b)
			}
			if len(c.Samples) < 4 {
				c.Sample(M{"schema": clip(string(content), 300), "options_compared": []string{"only-models", "tags", "capitalization", "title", "root-type", "extra-imports"}})
			}
		}
		// the naming options on a schema that refers to WHOLE FILES (the referenced root with or without a `type`, used once,
		// twice, or folded into an allOf and used again): the referenced file's root keeps the name ITS title / file name
		// gives it; only identifiers change
		for vi, variant := range []string{"typed-once", "untyped-once", "untyped-twice", "typed-allOf-and-again", "untyped-allOf-and-again"} {
			b := sgen.M{"$id": "https://example.com/b", "title": "Beta", "properties": sgen.M{"x": sgen.M{"type": "string"}, "y": sgen.M{"type": "integer", "minimum": 1}}}
			if strings.HasPrefix(variant, "typed") {
				b["type"] = "object"
			}
			props := sgen.M{"b": sgen.M{"$ref": "b.json"}, "n": sgen.M{"type": "string"}}
			if strings.HasSuffix(variant, "twice") {
				props["b2"] = sgen.M{"$ref": "b.json"}
			}
			if strings.HasSuffix(variant, "again") {
				props["m"] = sgen.M{"allOf": []any{sgen.M{"$ref": "b.json"}, sgen.M{"type": "object", "properties": sgen.M{"extra": sgen.M{"type": "boolean"}}}}}
				props["z"] = sgen.M{"$ref": "b.json"}
			}
			a := core.MustJSON(sgen.M{"$id": "https://example.com/a", "title": "Alpha", "type": "object", "properties": props})
			dir := filepath.Join(tmp, fmt.Sprintf("files%d", vi))
			_ = os.MkdirAll(dir, 0o755)
			_ = os.WriteFile(filepath.Join(dir, "b.json"), core.MustJSON(b), 0o644)
			base := core.DefaultCfg()
			full := genSrc(dir, "a.json", a, base, "https://example.com/a")
			if strings.HasPrefix(full, "ERR") || strings.HasPrefix(full, "PANIC") {
				c.Count("c16", "whole-file references: base run fails ("+variant+")")
				continue
			}
			for _, nm := range []string{"title", "root-type", "title+root-type", "capitalization"} {
				nc := base
				switch nm {
				case "title":
					nc.StructNameFromTitle = true
				case "root-type":
					nc.RootType = "CustomRoot"
				case "title+root-type":
					nc.StructNameFromTitle, nc.RootType = true, "CustomRoot"
				default:
					nc.Caps = []string{"JSON"}
				}
				ncOut := genSrc(dir, "a.json", a, nc, "https://example.com/a")
				c.Eval("whole-file-refs|" + variant + "|" + nm)
				bad := ""
				switch {
				case strings.HasPrefix(ncOut, "ERR") || strings.HasPrefix(ncOut, "PANIC"):
					bad = "generation fails with the option"
				case countDecls(ncOut) != countDecls(full):
					bad = "the number of declarations changes"
				case declSet(eraseTags(ncOut), nil, true) != declSet(eraseTags(full), nil, true):
					bad = "the outputs differ in more than identifiers"
				case eraseIdentsInTags(ncOut) != eraseIdentsInTags(full):
					bad = "struct tags changed"
				}
				if bad != "" {
					fails++
					if fails <= 3 {
						c.Fail("oracle", "option --"+nm+" on a schema referring to a whole file ("+variant+"): "+bad, M{"kind": "relational", "option": nm, "schema": string(a), "files": M{"b.json": string(core.MustJSON(b))}, "cfg_a": base, "cfg_b": nc, "output_a": clip(full, 6000), "output_b": clip(ncOut, 6000)}, false)
					}
				}
			}
			c.Programs += 5
		}
		c.Programs += n
		res := runCases(c, behav)
		for i := 0; i+1 < len(res); i += 2 {
			a, b := res[i], res[i+1]
			if a.RunsJ == nil || b.RunsJ == nil {
				continue
			}
			for d := range a.DocJSON {
				c.Eval("json-behaviour|" + a.RunsJ[d].Kind + "|" + classOfDoc(a.DocJSON[d]))
				if a.RunsJ[d].Kind != b.RunsJ[d].Kind || a.RunsJ[d].Canon != b.RunsJ[d].Canon {
					fails++
					if fails <= 3 {
						c.Fail("oracle", "--extra-imports changes the JSON behaviour", replayOf(a, d, M{"without_extra_imports": b.RunsJ[d].Kind + " " + b.RunsJ[d].Canon}), false)
					}
				}
			}
		}
		breaks(c, res, map[string]bool{"gen": true, "summary": true, "imports": true}, fails > 0)
		// the per-schema naming flag at the COMMAND LINE (main.go assembles the schema mappings): two invocations that
		// differ only in `--schema-root-type ID=Name` must write the same files with the same declarations up to
		// identifiers, whatever other per-schema flags the id has (none; package + output; package only = external)
		if bin := buildCLI(c); bin != "" {
			address := `{"$id":"urn:addr","type":"object","properties":{"street":{"type":"string","minLength":1},"zip":{"type":"string","pattern":"^[0-9]+$"}},"required":["street"]}`
			mainDoc := `{"$id":"urn:main","type":"object","properties":{"name":{"type":"string"},"home":{"$ref":"address.json"}},"required":["name"]}`
			flagSets := map[string][]string{
				"no-other-flag":      {},
				"package-and-output": {"--schema-package", "urn:addr=example.com/m/geo", "--schema-output", "urn:addr=geo/address.go"},
				"output-only":        {"--schema-output", "urn:addr=address.go"},
				"package-only":       {"--schema-package", "urn:addr=example.com/m/geo"},
			}
			for _, fname := range core.SortedKeys(flagSets) {
				for _, target := range []string{"urn:addr=PostalAddress", "urn:main=Top"} {
					for _, outMode := range []string{"stdout", "file"} {
						base := []string{"-p", "example.com/m/model"}
						if outMode == "file" {
							base = append(base, "-o", "model.go")
						}
						base = append(base, flagSets[fname]...)
						runOne := func(tag string, extra []string, files []string) cliResult {
							wd := filepath.Join(tmp, "cli-"+fname+"-"+outMode+"-"+tag+"-"+strings.ReplaceAll(target, ":", "_"))
							_ = os.MkdirAll(wd, 0o755)
							_ = os.WriteFile(filepath.Join(wd, "address.json"), []byte(address), 0o644)
							_ = os.WriteFile(filepath.Join(wd, "main.json"), []byte(mainDoc), 0o644)
							args := append(append(append([]string{}, base...), extra...), files...)
							return runCLI(bin, wd, "", args...)
						}
						for _, files := range [][]string{{"main.json"}, {"address.json", "main.json"}} {
							a := runOne("a", nil, files)
							b := runOne("b", []string{"--schema-root-type", target}, files)
							c.Eval(fmt.Sprintf("cli-root-type|%s|%s|%s|%d", fname, target, outMode, len(files)))
							view := func(r cliResult) string {
								var parts []string
								if r.Exit != 0 {
									return "EXIT " + fmt.Sprint(r.Exit) + " " + clip(r.Stderr, 200)
								}
								parts = append(parts, "stdout:"+declSet(eraseTags(r.Stdout), nil, true))
								for _, fn := range core.SortedKeys(r.Files) {
									if strings.HasSuffix(fn, ".go") {
										parts = append(parts, fn+":"+declSet(eraseTags(r.Files[fn]), nil, true))
									}
								}
								return strings.Join(parts, "\n=====\n")
							}
							if view(a) != view(b) {
								fails++
								if fails <= 3 {
									c.Fail("oracle", fmt.Sprintf("command line: adding --schema-root-type %s (other flags: %s, output to %s, arguments %v) changes more than identifiers", target, fname, outMode, files),
										M{"kind": "cli-pair", "flags": base, "added": []string{"--schema-root-type", target}, "files": M{"address.json": address, "main.json": mainDoc}, "args": files,
											"without": clip(view(a), 1500), "with": clip(view(b), 1500), "stderr_with": clip(b.Stderr, 300)}, false)
								}
							}
						}
					}
				}
			}
		}
		// --only-models on the near-duplicate table (two nodes asking for one Go type name, differing in one keyword or in
		// nothing; neardup.go): which of them share a declaration is decided by comparing schema nodes, and must not depend
		// on whether the methods are generated — same type declarations as the full run, also with --min-sized-ints
		for ni, pc := range nearDupCases(c, "c16-near-duplicates") {
			content := core.MustJSON(pc.Schema)
			for _, ms := range []bool{false, true} {
				if ms && ni%3 != 0 && !c.Thorough() {
					continue
				}
				base := core.DefaultCfg()
				base.MinSizedInts = ms
				dir := filepath.Join(tmp, fmt.Sprintf("nd%d-%v", ni, ms))
				full := genSrc(dir, "schema.json", content, base, "")
				if strings.HasPrefix(full, "ERR") || strings.HasPrefix(full, "PANIC") {
					continue
				}
				om := base
				om.OnlyModels = true
				omOut := genSrc(dir, "schema.json", content, om, "")
				c.Eval(fmt.Sprintf("only-models-neardup|%s|%s|%v", pc.Labels[0], pc.Labels[1], ms))
				c.Count("only-models on near-duplicates", pc.Labels[1])
				if typeDeclsOf(omOut) != typeDeclsOf(full) {
					fails++
					if fails <= 3 {
						c.Fail("oracle", "option --only-models: the type declarations differ from the full run's (same-named nodes: "+pc.Labels[0]+", "+pc.Labels[1]+")",
							M{"kind": "relational", "option": "--only-models", "schema": string(content), "cfg_a": base, "cfg_b": om, "output_a": clip(full, 6000), "output_b": clip(omOut, 6000)}, false)
					}
				}
			}
		}
		cliEqualsLibrary(c, buildCLI(c), false, &fails)
		c.FactsVerdict(fails > 0)
	})
}

func upperRefPrefix(v any) any {
	switch t := v.(type) {
	case map[string]any:
		o := map[string]any{}
		for k, x := range t {
			if k == "$ref" {
				if s, ok := x.(string); ok {
					o[k] = strings.Replace(s, "#/definitions/", "#/DEFINITIONS/", 1)
					continue
				}
			}
			if k == "enum" || k == "default" || k == "required" {
				o[k] = x
				continue
			}
			o[k] = upperRefPrefix(x)
		}
		return o
	case []any:
		var a []any
		for _, x := range t {
			a = append(a, upperRefPrefix(x))
		}
		return a
	}
	return v
}

func countDecls(src string) string {
	_, f := parseSrc(src)
	if f == nil {
		return "PARSEERR"
	}
	return fmt.Sprint(len(f.Decls))
}

// eraseIdentsInTags keeps only the struct tags, in order.
func eraseIdentsInTags(src string) string {
	var tags []string
	for _, m := range regexpBacktick.FindAllString(src, -1) {
		if strings.Contains(m, `:"`) {
			tags = append(tags, m)
		}
	}
	sort.Strings(tags) // declarations are emitted sorted by name: a renaming may reorder them
	return strings.Join(tags, "\n")
}

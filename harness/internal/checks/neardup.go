package checks

import (
	"fmt"

	"verifharness/internal/core"
	"verifharness/internal/engine"
	"verifharness/internal/sgen"
)

// Near-duplicate schemas under one Go type name.  When a second schema node asks for a type name that is
// already declared, the generator compares the two nodes (cmp.Equal with the options of pkg/cmputil) and
// reuses the declared type only if they are equal; otherwise the second gets `Name_1`.  Whatever that
// comparison ignores is lost for the second node.  The stream builds pairs of nodes whose names collide
// after normalisation and whose schemas differ in exactly ONE keyword at some depth, and decodes, into each
// of the two, documents valid for the one and for the other.
type perturbation struct {
	name string
	a, b sgen.M // two object schemas differing in one keyword
	docs []any  // values to try at both positions
}

func nearDupPerturbations() []perturbation {
	obj := func(props sgen.M, extra sgen.M) sgen.M {
		o := sgen.M{"type": "object", "properties": props}
		for k, v := range extra {
			o[k] = v
		}
		return o
	}
	str := func(extra sgen.M) sgen.M {
		o := sgen.M{"type": "string"}
		for k, v := range extra {
			o[k] = v
		}
		return o
	}
	var ps []perturbation
	add := func(name string, a, b sgen.M, docs ...any) { ps = append(ps, perturbation{name, a, b, docs}) }
	add("format date/date-time", obj(sgen.M{"t": str(sgen.M{"format": "date"})}, nil), obj(sgen.M{"t": str(sgen.M{"format": "date-time"})}, nil),
		M{"t": "2024-12-24"}, M{"t": "2024-12-24T09:00:00Z"}, M{"t": "x"})
	add("format none/date", obj(sgen.M{"t": str(nil)}, nil), obj(sgen.M{"t": str(sgen.M{"format": "date"})}, nil), M{"t": "2024-12-24"}, M{"t": "hello"})
	add("format time/none", obj(sgen.M{"t": str(sgen.M{"format": "time"})}, nil), obj(sgen.M{"t": str(nil)}, nil), M{"t": "09:00:00"}, M{"t": "hello"})
	add("format ipv4/ipv6", obj(sgen.M{"t": str(sgen.M{"format": "ipv4"})}, nil), obj(sgen.M{"t": str(sgen.M{"format": "ipv6"})}, nil), M{"t": "1.2.3.4"}, M{"t": "::1"})
	add("type integer/string", obj(sgen.M{"t": sgen.M{"type": "integer"}}, nil), obj(sgen.M{"t": sgen.M{"type": "string"}}, nil), M{"t": 1}, M{"t": "s"})
	add("minLength 1/3", obj(sgen.M{"t": str(sgen.M{"minLength": 1})}, nil), obj(sgen.M{"t": str(sgen.M{"minLength": 3})}, nil), M{"t": "ab"}, M{"t": "abcd"}, M{"t": ""})
	add("maxLength none/2", obj(sgen.M{"t": str(nil)}, nil), obj(sgen.M{"t": str(sgen.M{"maxLength": 2})}, nil), M{"t": "ab"}, M{"t": "abcd"})
	add("pattern", obj(sgen.M{"t": str(sgen.M{"pattern": "^a"})}, nil), obj(sgen.M{"t": str(sgen.M{"pattern": "^b"})}, nil), M{"t": "ab"}, M{"t": "ba"})
	add("minimum 1/5", obj(sgen.M{"t": sgen.M{"type": "integer", "minimum": 1}}, nil), obj(sgen.M{"t": sgen.M{"type": "integer", "minimum": 5}}, nil), M{"t": 3}, M{"t": 7}, M{"t": 0})
	add("maximum none/5", obj(sgen.M{"t": sgen.M{"type": "number"}}, nil), obj(sgen.M{"t": sgen.M{"type": "number", "maximum": 5}}, nil), M{"t": 3}, M{"t": 7.5})
	add("exclusiveMinimum bool", obj(sgen.M{"t": sgen.M{"type": "integer", "minimum": 1}}, nil), obj(sgen.M{"t": sgen.M{"type": "integer", "minimum": 1, "exclusiveMinimum": true}}, nil), M{"t": 1}, M{"t": 2})
	add("multipleOf", obj(sgen.M{"t": sgen.M{"type": "integer", "multipleOf": 2}}, nil), obj(sgen.M{"t": sgen.M{"type": "integer", "multipleOf": 3}}, nil), M{"t": 4}, M{"t": 9})
	add("required none/[t]", obj(sgen.M{"t": str(nil)}, nil), obj(sgen.M{"t": str(nil)}, sgen.M{"required": []any{"t"}}), M{"t": "x"}, M{})
	add("required []/[t]", obj(sgen.M{"t": str(nil)}, sgen.M{"required": []any{}}), obj(sgen.M{"t": str(nil)}, sgen.M{"required": []any{"t"}}), M{"t": "x"}, M{})
	add("required absent/[] (equal up to emptiness)", obj(sgen.M{"t": str(nil)}, nil), obj(sgen.M{"t": str(nil)}, sgen.M{"required": []any{}}), M{"t": "x"}, M{})
	add("inner enum members", obj(sgen.M{"t": str(sgen.M{"enum": []any{"a", "b"}})}, nil), obj(sgen.M{"t": str(sgen.M{"enum": []any{"a", "c"}})}, nil), M{"t": "b"}, M{"t": "c"}, M{"t": "a"})
	add("inner enum none/some", obj(sgen.M{"t": str(nil)}, nil), obj(sgen.M{"t": str(sgen.M{"enum": []any{"a", "c"}})}, nil), M{"t": "b"}, M{"t": "c"})
	add("items type", obj(sgen.M{"t": sgen.M{"type": "array", "items": sgen.M{"type": "integer"}}}, nil), obj(sgen.M{"t": sgen.M{"type": "array", "items": sgen.M{"type": "string"}}}, nil), M{"t": []any{1}}, M{"t": []any{"s"}})
	add("minItems", obj(sgen.M{"t": sgen.M{"type": "array", "items": sgen.M{"type": "integer"}}}, nil), obj(sgen.M{"t": sgen.M{"type": "array", "items": sgen.M{"type": "integer"}, "minItems": 2}}, nil), M{"t": []any{1}}, M{"t": []any{1, 2}})
	add("default", obj(sgen.M{"t": sgen.M{"type": "integer", "default": 1}}, nil), obj(sgen.M{"t": sgen.M{"type": "integer", "default": 2}}, nil), M{}, M{"t": 5})
	add("required with default / required without", obj(sgen.M{"t": sgen.M{"type": "integer", "default": 8080}}, sgen.M{"required": []any{"t"}}), obj(sgen.M{"t": sgen.M{"type": "integer"}}, sgen.M{"required": []any{"t"}}), M{}, M{"t": 5})
	add("required default 1 / required default 2", obj(sgen.M{"t": sgen.M{"type": "integer", "default": 1}}, sgen.M{"required": []any{"t"}}), obj(sgen.M{"t": sgen.M{"type": "integer", "default": 2}}, sgen.M{"required": []any{"t"}}), M{}, M{"t": 5})
	add("title only (annotation)", obj(sgen.M{"t": str(sgen.M{"minLength": 2})}, sgen.M{"title": "First"}), obj(sgen.M{"t": str(sgen.M{"minLength": 2})}, sgen.M{"title": "Second"}), M{"t": "ab"}, M{"t": "a"})
	add("untyped enum members differing only in JSON type", obj(sgen.M{"t": sgen.M{"enum": []any{1, 2, 3}}}, nil), obj(sgen.M{"t": sgen.M{"enum": []any{"1", "2", "3"}}}, nil), M{"t": 1}, M{"t": "1"}, M{"t": 4})
	add("untyped enum true / \"true\"", obj(sgen.M{"t": sgen.M{"enum": []any{true, "x"}}}, nil), obj(sgen.M{"t": sgen.M{"enum": []any{"true", "x"}}}, nil), M{"t": true}, M{"t": "true"}, M{"t": "x"})
	add("typed enum members", obj(sgen.M{"t": sgen.M{"type": "integer", "enum": []any{1, 2}}}, nil), obj(sgen.M{"t": sgen.M{"type": "integer", "enum": []any{1, 3}}}, nil), M{"t": 2}, M{"t": 3}, M{"t": 1})
	add("minLength/maxLength inside allOf", obj(sgen.M{"label": sgen.M{"allOf": []any{obj(sgen.M{"code": str(nil)}, nil), sgen.M{"properties": sgen.M{"code": sgen.M{"minLength": 2, "maxLength": 4}}}}}}, nil),
		obj(sgen.M{"label": sgen.M{"allOf": []any{obj(sgen.M{"code": str(nil)}, nil), sgen.M{"properties": sgen.M{"code": sgen.M{"minLength": 5, "maxLength": 8}}}}}}, nil),
		M{"label": M{"code": "abcd"}}, M{"label": M{"code": "abcdef"}}, M{"label": M{"code": "a"}})
	add("pattern inside allOf", obj(sgen.M{"label": sgen.M{"allOf": []any{obj(sgen.M{"tag": str(nil)}, nil), sgen.M{"properties": sgen.M{"tag": sgen.M{"pattern": "^a"}}}}}}, nil),
		obj(sgen.M{"label": sgen.M{"allOf": []any{obj(sgen.M{"tag": str(nil)}, nil), sgen.M{"properties": sgen.M{"tag": sgen.M{"pattern": "^b"}}}}}}, nil),
		M{"label": M{"tag": "ab"}}, M{"label": M{"tag": "ba"}})
	arrIn := func(mn, mx int) sgen.M {
		return obj(sgen.M{"window": sgen.M{"allOf": []any{obj(sgen.M{"unit": str(nil)}, nil),
			sgen.M{"type": "object", "properties": sgen.M{"samples": sgen.M{"type": "array", "items": sgen.M{"type": "integer"}, "minItems": mn, "maxItems": mx}}}}}}, nil)
	}
	add("minItems/maxItems inside allOf", arrIn(2, 3), arrIn(4, 6), M{"window": M{"samples": []any{1, 2, 3}}}, M{"window": M{"samples": []any{1, 2, 3, 4, 5}}}, M{"window": M{"samples": []any{1}}})
	brA := obj(sgen.M{"a": sgen.M{"type": "integer"}}, sgen.M{"required": []any{"a"}})
	brB := obj(sgen.M{"b": str(nil)}, nil)
	brC := obj(sgen.M{"c": sgen.M{"type": "boolean"}}, sgen.M{"required": []any{"c"}})
	add("allOf with one more branch (required member)", obj(sgen.M{"detail": sgen.M{"allOf": []any{brA, brB}}}, nil), obj(sgen.M{"detail": sgen.M{"allOf": []any{brA, brB, brC}}}, nil),
		M{"detail": M{"a": 1, "b": "x"}}, M{"detail": M{"a": 1, "b": "x", "c": true}}, M{"detail": M{"b": "x", "c": true}}, M{"detail": M{"a": 1, "c": "yes"}})
	add("allOf branch member type", obj(sgen.M{"detail": sgen.M{"allOf": []any{brA, obj(sgen.M{"b": str(nil)}, nil)}}}, nil), obj(sgen.M{"detail": sgen.M{"allOf": []any{brA, obj(sgen.M{"b": sgen.M{"type": "integer"}}, nil)}}}, nil),
		M{"detail": M{"a": 1, "b": "x"}}, M{"detail": M{"a": 1, "b": 2}})
	add("allOf branch required", obj(sgen.M{"detail": sgen.M{"allOf": []any{brA, brB}}}, nil), obj(sgen.M{"detail": sgen.M{"allOf": []any{brA, obj(sgen.M{"b": str(nil)}, sgen.M{"required": []any{"b"}})}}}, nil),
		M{"detail": M{"a": 1, "b": "x"}}, M{"detail": M{"a": 1}})
	// (two same-named nodes that differ only INSIDE anyOf are the listed finding K34: the comparison ignores the AnyOf field)
	add("maxItems", obj(sgen.M{"t": sgen.M{"type": "array", "items": sgen.M{"type": "integer"}, "maxItems": 1}}, nil), obj(sgen.M{"t": sgen.M{"type": "array", "items": sgen.M{"type": "integer"}, "maxItems": 3}}, nil), M{"t": []any{1}}, M{"t": []any{1, 2}}, M{"t": []any{1, 2, 3, 4}})
	add("additional property set", obj(sgen.M{"t": str(nil)}, nil), obj(sgen.M{"t": str(nil), "u": sgen.M{"type": "integer"}}, nil), M{"t": "x"}, M{"t": "x", "u": 1}, M{"t": "x", "u": "s"})
	add("nullable", obj(sgen.M{"t": sgen.M{"type": "integer"}}, sgen.M{"required": []any{"t"}}), obj(sgen.M{"t": sgen.M{"type": []any{"integer", "null"}}}, sgen.M{"required": []any{"t"}}), M{"t": 1}, M{"t": nil})
	add("description only (annotation)", obj(sgen.M{"t": str(sgen.M{"minLength": 2})}, sgen.M{"description": "first"}), obj(sgen.M{"t": str(sgen.M{"minLength": 2})}, sgen.M{"description": "second"}), M{"t": "ab"}, M{"t": "a"})
	add("identical typed integer enum", obj(sgen.M{"t": sgen.M{"type": "integer", "enum": []any{1, 2, 3}}}, nil), obj(sgen.M{"t": sgen.M{"type": "integer", "enum": []any{1, 2, 3}}}, nil), M{"t": 2}, M{"t": 4})
	add("identical typed string enum", obj(sgen.M{"t": sgen.M{"type": "string", "enum": []any{"a", "b"}}}, nil), obj(sgen.M{"t": sgen.M{"type": "string", "enum": []any{"a", "b"}}}, nil), M{"t": "a"}, M{"t": "c"})
	add("identical", obj(sgen.M{"t": str(sgen.M{"minLength": 2})}, nil), obj(sgen.M{"t": str(sgen.M{"minLength": 2})}, nil), M{"t": "ab"}, M{"t": "a"})
	return ps
}

// nearDupCases: for every perturbation, both orders, three ways of making the names collide.
func nearDupCases(c *engine.Ctx, stream string) []*core.PCase {
	var pcs []*core.PCase
	for _, p := range nearDupPerturbations() {
		for _, swap := range []bool{false, true} {
			a, b := p.a, p.b
			if swap {
				a, b = b, a
			}
			for _, way := range []string{"sibling-properties", "definitions", "definition-and-property", "array-items", "after-shared-definition"} {
				var schema sgen.M
				var mk func(x, y any) any
				first, second := sgen.DeepCopy(a).(sgen.M), sgen.DeepCopy(b).(sgen.M)
				switch way {
				case "sibling-properties":
					// "a-b" sorts before "a_b"; both become <Root>AB
					schema = sgen.M{"type": "object", "properties": sgen.M{"a-b": first, "a_b": second}}
					mk = func(x, y any) any { return pairDoc("a-b", x, "a_b", y) }
				case "definitions":
					schema = sgen.M{"type": "object", "properties": sgen.M{"p": sgen.M{"$ref": "#/$defs/a-b"}, "q": sgen.M{"$ref": "#/$defs/a_b"}},
						"$defs": sgen.M{"a-b": first, "a_b": second}}
					mk = func(x, y any) any { return pairDoc("p", x, "q", y) }
				case "definition-and-property":
					// the definition RootP is generated first, the property p of Root asks for RootP again
					schema = sgen.M{"type": "object", "properties": sgen.M{"p": second, "q": sgen.M{"$ref": "#/$defs/RootP"}}, "$defs": sgen.M{"RootP": first}}
					mk = func(x, y any) any { return pairDoc("q", x, "p", y) }
				case "after-shared-definition":
					// not a name collision but a SHARED NODE: both uses fold the same definition in first and add an inline
					// branch of their own; whatever the first use's merge does to the definition, the second must not see
					schema = sgen.M{"type": "object", "$defs": sgen.M{"Base": sgen.M{"type": "object", "properties": sgen.M{"id": sgen.M{"type": "string"}}}},
						"properties": sgen.M{"x": sgen.M{"allOf": []any{sgen.M{"$ref": "#/$defs/Base"}, first}}, "y": sgen.M{"allOf": []any{sgen.M{"$ref": "#/$defs/Base"}, second}},
							"z": sgen.M{"allOf": []any{sgen.M{"$ref": "#/$defs/Base"}, sgen.M{"type": "object", "properties": sgen.M{"note": sgen.M{"type": "string"}}}}}}}
					mk = func(x, y any) any {
						d := pairDoc("x", x, "y", y).(M)
						if y != nil {
							d["z"] = sgen.DeepCopy(y) // z declares none of it: ignored, never checked
						}
						return d
					}
				case "array-items":
					schema = sgen.M{"type": "object", "properties": sgen.M{"a-b": sgen.M{"type": "array", "items": first}, "a_b": sgen.M{"type": "array", "items": second}}}
					mk = func(x, y any) any { return pairDoc("a-b", wrapArr(x), "a_b", wrapArr(y)) }
				}
				var docs []any
				for _, x := range p.docs {
					for _, y := range p.docs {
						docs = append(docs, mk(x, y))
					}
				}
				pcs = append(pcs, baseCase(stream, schema, docs, p.name, way, fmt.Sprint(swap)))
			}
		}
	}
	return pcs
}

func wrapArr(x any) any {
	if x == nil {
		return nil
	}
	return []any{x}
}

func pairDoc(k1 string, x any, k2 string, y any) any {
	d := M{}
	if x != nil {
		d[k1] = sgen.DeepCopy(x)
	}
	if y != nil {
		d[k2] = sgen.DeepCopy(y)
	}
	return d
}

package checks

import (
	"fmt"
	"os"
	"os/exec"
	"path/filepath"
	"strings"

	"verifharness/internal/core"
	"verifharness/internal/engine"
)

// severalPackages (C04, "at any depth" — here: in whichever emitted package the object type lives): ONE invocation
// writes two or three Go packages; every package has a root type `Thing` and a definition
// `Address` — the same names in every package, different required keys in each — and reaches the next package's
// Address through a file reference.  A small program decodes, into every package's root type, a fully populated
// document and every single deletion of a required key (root, own definition, the other package's definition,
// inline object), plus two wrongly typed values.  Full documents must be accepted, every other one rejected.
func severalPackages(c *engine.Ctx, fails *int) {
	bin := buildCLI(c)
	if bin == "" {
		return
	}
	tmp, _ := os.MkdirTemp("", "gjsc04p")
	defer os.RemoveAll(tmp)
	n := 0
	for _, k := range []int{2, 3} {
		for oi, order := range []string{"forward", "reverse", "first-only", "last-first"} {
			for _, ring := range []bool{false} { // (a ring of packages would be an import cycle in Go)
				n++
				wd := filepath.Join(tmp, fmt.Sprint(n))
				files := map[string]string{"go.mod": "module example.com/m\n\ngo 1.23.0\n"}
				next := func(i int) int {
					if i+1 < k {
						return i + 1
					}
					if ring {
						return 0
					}
					return -1
				}
				addr := func(i int) M {
					return M{fmt.Sprintf("k%da", i): "s", fmt.Sprintf("k%db", i): 1}
				}
				args := []string{"--tags", "json"}
				for i := 0; i < k; i++ {
					props := M{
						fmt.Sprintf("id%d", i): M{"type": "string"},
						"own":                  M{"$ref": "#/$defs/Address"},
						"inl": M{"type": "object", "properties": M{fmt.Sprintf("q%d", i): M{"type": "integer"}, "free": M{"type": "string"}},
							"required": []any{fmt.Sprintf("q%d", i)}},
					}
					if j := next(i); j >= 0 {
						props["next"] = M{"$ref": fmt.Sprintf("../p%d/thing.json#/$defs/Address", j)}
					}
					files[fmt.Sprintf("p%d/thing.json", i)] = string(core.MustJSON(M{
						"$id": fmt.Sprintf("urn:p%d", i), "type": "object", "properties": props, "required": []any{fmt.Sprintf("id%d", i)},
						"$defs": M{"Address": M{"type": "object", "properties": M{
							fmt.Sprintf("k%da", i): M{"type": "string"}, fmt.Sprintf("k%db", i): M{"type": "integer"}, "note": M{"type": "string"}},
							"required": []any{fmt.Sprintf("k%da", i), fmt.Sprintf("k%db", i)}}},
					}))
					args = append(args, "--schema-package", fmt.Sprintf("urn:p%d=example.com/m/p%d", i, i), "--schema-output", fmt.Sprintf("urn:p%d=p%d/gen.go", i, i),
						"--schema-root-type", fmt.Sprintf("urn:p%d=Thing", i))
				}
				var inputs []string
				switch order {
				case "forward":
					for i := 0; i < k; i++ {
						inputs = append(inputs, fmt.Sprintf("p%d/thing.json", i))
					}
				case "reverse":
					for i := k - 1; i >= 0; i-- {
						inputs = append(inputs, fmt.Sprintf("p%d/thing.json", i))
					}
				case "first-only":
					inputs = []string{"p0/thing.json"}
				case "last-first":
					inputs = []string{fmt.Sprintf("p%d/thing.json", k-1), "p0/thing.json"}
				}
				// the packages that the run reaches
				reached := map[int]bool{}
				for _, in := range inputs {
					var i int
					fmt.Sscanf(in, "p%d/", &i)
					for j := i; j >= 0 && !reached[j]; j = next(j) {
						reached[j] = true
					}
				}
				// documents
				type doc struct {
					label, pkg, text string
					valid            bool
				}
				var docs []doc
				var prog strings.Builder
				prog.WriteString("package main\n\nimport (\n\t\"encoding/json\"\n\t\"fmt\"\n")
				for i := 0; i < k; i++ {
					if reached[i] {
						fmt.Fprintf(&prog, "\tp%d \"example.com/m/p%d\"\n", i, i)
					}
				}
				prog.WriteString(")\n\nfunc try(label string, dst any, doc string) {\n\tif err := json.Unmarshal([]byte(doc), dst); err != nil {\n\t\tfmt.Println(label, \"reject\", err)\n\t} else {\n\t\tfmt.Println(label, \"ok\")\n\t}\n}\n\nfunc main() {\n")
				for i := 0; i < k; i++ {
					if !reached[i] {
						continue
					}
					// is the root type of package i emitted?  only when its file is an input
					isInput := false
					for _, in := range inputs {
						if in == fmt.Sprintf("p%d/thing.json", i) {
							isInput = true
						}
					}
					full := func() M {
						d := M{fmt.Sprintf("id%d", i): "x", "own": addr(i), "inl": M{fmt.Sprintf("q%d", i): 1}}
						if j := next(i); j >= 0 {
							d["next"] = addr(j)
						}
						return d
					}
					add := func(label, typ string, d any, valid bool) {
						text := string(core.MustJSON(d))
						docs = append(docs, doc{label, typ, text, valid})
						fmt.Fprintf(&prog, "\ttry(%q, &p%d.%s{}, %q)\n", label, i, typ, text)
					}
					// the definition on its own, in every reached package
					add(fmt.Sprintf("p%d.Address/full", i), "Address", addr(i), true)
					for _, key := range []string{"a", "b"} {
						d := addr(i)
						delete(d, fmt.Sprintf("k%d%s", i, key))
						add(fmt.Sprintf("p%d.Address/-k%d%s", i, i, key), "Address", d, false)
					}
					add(fmt.Sprintf("p%d.Address/empty", i), "Address", M{}, false)
					if !isInput {
						continue
					}
					add(fmt.Sprintf("p%d.Thing/full", i), "Thing", full(), true)
					d := full()
					delete(d, fmt.Sprintf("id%d", i))
					add(fmt.Sprintf("p%d.Thing/-id", i), "Thing", d, false)
					for _, key := range []string{"a", "b"} {
						d = full()
						delete(d["own"].(M), fmt.Sprintf("k%d%s", i, key))
						add(fmt.Sprintf("p%d.Thing/-own.%s", i, key), "Thing", d, false)
						if j := next(i); j >= 0 {
							d = full()
							delete(d["next"].(M), fmt.Sprintf("k%d%s", j, key))
							add(fmt.Sprintf("p%d.Thing/-next.%s", i, key), "Thing", d, false)
						}
					}
					d = full()
					delete(d["inl"].(M), fmt.Sprintf("q%d", i))
					add(fmt.Sprintf("p%d.Thing/-inl.q", i), "Thing", d, false)
					d = full()
					d["own"].(M)[fmt.Sprintf("k%db", i)] = "text"
					add(fmt.Sprintf("p%d.Thing/own.b-text", i), "Thing", d, false)
					d = full()
					d["own"] = 5
					add(fmt.Sprintf("p%d.Thing/own-number", i), "Thing", d, false)
				}
				prog.WriteString("}\n")
				files["main.go"] = prog.String()
				for name, data := range files {
					fn := filepath.Join(wd, name)
					_ = os.MkdirAll(filepath.Dir(fn), 0o755)
					_ = os.WriteFile(fn, []byte(data), 0o644)
				}
				res := runCLI(bin, wd, "", append(args, inputs...)...)
				c.Programs++
				replay := M{"kind": "cli-multi-run", "files": files, "flags": args, "inputs": inputs, "run": "go run . (in the directory of go.mod, after the invocation)"}
				report := func(msg string) {
					*fails++
					if *fails <= 3 {
						c.Fail("oracle", fmt.Sprintf("several packages in one run (%d packages, inputs %s, ring=%v): %s", k, order, ring, msg), replay, false)
					}
				}
				if res.Exit != 0 {
					c.Eval(fmt.Sprintf("several-packages|%d|%d|%v|exit=%d", k, oi, ring, res.Exit))
					report("the invocation fails: " + clip(res.Stderr, 300))
					continue
				}
				cmd := exec.Command("go", "run", ".")
				cmd.Dir = wd
				cmd.Env = core.GoEnv()
				out, err := cmd.CombinedOutput()
				if err != nil {
					c.Eval(fmt.Sprintf("several-packages|%d|%d|%v|build-fails", k, oi, ring))
					report("the emitted packages do not build or run: " + clip(string(out), 400))
					continue
				}
				got := map[string]string{}
				for _, ln := range strings.Split(string(out), "\n") {
					if f := strings.SplitN(ln, " ", 3); len(f) >= 2 {
						got[f[0]] = strings.Join(f[1:], " ")
					}
				}
				for _, d := range docs {
					g := got[d.label]
					c.Eval(fmt.Sprintf("several-packages|%d|%d|%v|%s|%s", k, oi, ring, d.label, strings.SplitN(g, " ", 2)[0]))
					want := "reject"
					if d.valid {
						want = "ok"
					}
					if !strings.HasPrefix(g, want) {
						replay["doc"], replay["decodeInto"], replay["got"], replay["expected"] = d.text, d.label, g, want
						report(fmt.Sprintf("%s: document %s is %q, expected %s", d.label, clip(d.text, 200), clip(g, 120), want))
						break
					}
				}
			}
		}
	}
	c.Count("c04", fmt.Sprintf("several packages in one run: %d invocations", n))
}

package checks

import (
	"bytes"
	"encoding/json"
	"fmt"
	"go/ast"
	"go/format"
	"go/parser"
	"go/printer"
	"go/token"
	"os"
	"os/exec"
	"path/filepath"
	"regexp"
	"sort"
	"strings"
	"time"
	"unicode/utf16"

	"gopkg.in/yaml.v3"

	"verifharness/internal/core"
	"verifharness/internal/engine"
	"verifharness/internal/sgen"
)

// shuffledJSON encodes v with the keys of every object in a random order.
func shuffledJSON(r *core.Rng, v any, buf *bytes.Buffer) {
	switch t := v.(type) {
	case map[string]any:
		keys := core.SortedKeys(t)
		core.Shuffle(r, keys)
		buf.WriteByte('{')
		for i, k := range keys {
			if i > 0 {
				buf.WriteByte(',')
			}
			kb, _ := json.Marshal(k)
			buf.Write(kb)
			buf.WriteByte(':')
			shuffledJSON(r, t[k], buf)
		}
		buf.WriteByte('}')
	case []any:
		buf.WriteByte('[')
		for i, x := range t {
			if i > 0 {
				buf.WriteByte(',')
			}
			shuffledJSON(r, x, buf)
		}
		buf.WriteByte(']')
	default:
		buf.Write(core.MustJSON(t))
	}
}

// genSrc runs the real generator in-process on one file and returns the emitted text of the default output
// (or "ERR …" / "PANIC …").
func genSrc(dir, file string, content []byte, cfg core.Cfg, schemaID string) string {
	fn := filepath.Join(dir, file)
	_ = os.MkdirAll(filepath.Dir(fn), 0o755)
	_ = os.WriteFile(fn, content, 0o644)
	res := core.RunRealFiles(cfg.GeneratorConfig(schemaID, nil), []string{fn}, 20*time.Second)
	switch {
	case res.Timeout:
		return "TIMEOUT"
	case res.Panic != "":
		return "PANIC " + res.Panic
	case res.ErrKind != "":
		return "ERR " + res.ErrKind
	}
	var names []string
	for n := range res.Sources {
		names = append(names, n)
	}
	sort.Strings(names)
	var b strings.Builder
	for _, n := range names {
		if len(names) > 1 {
			b.WriteString("// FILE " + n + "\n")
		}
		b.Write(res.Sources[n])
	}
	return b.String()
}

func parseSrc(src string) (*token.FileSet, *ast.File) {
	fs := token.NewFileSet()
	f, err := parser.ParseFile(fs, "x.go", src, parser.ParseComments)
	if err != nil {
		return fs, nil
	}
	return fs, f
}

func typeDeclsOf(src string) string {
	fs, f := parseSrc(src)
	if f == nil {
		return "PARSEERR"
	}
	var out []string
	for _, d := range f.Decls {
		if g, ok := d.(*ast.GenDecl); ok && g.Tok == token.TYPE {
			for _, s := range g.Specs {
				var b bytes.Buffer
				_ = printer.Fprint(&b, fs, s)
				out = append(out, b.String())
			}
		}
	}
	sort.Strings(out)
	return strings.Join(out, "\n")
}

// nonTypeKinds lists what else a file contains: func, var, imports.
func nonTypeKinds(src string) []string {
	_, f := parseSrc(src)
	if f == nil {
		return []string{"PARSEERR"}
	}
	set := map[string]bool{}
	for _, d := range f.Decls {
		switch t := d.(type) {
		case *ast.FuncDecl:
			set["func"] = true
		case *ast.GenDecl:
			if t.Tok == token.VAR {
				set["var"] = true
			}
			if t.Tok == token.IMPORT {
				for _, s := range t.Specs {
					set["import "+s.(*ast.ImportSpec).Path.Value] = true
				}
			}
		}
	}
	return core.SortedKeys(set)
}

func eraseTags(src string) string {
	fs, f := parseSrc(src)
	if f == nil {
		return "PARSEERR"
	}
	ast.Inspect(f, func(n ast.Node) bool {
		if fl, ok := n.(*ast.Field); ok {
			fl.Tag = nil
		}
		return true
	})
	var b bytes.Buffer
	_ = format.Node(&b, fs, f)
	return b.String()
}

// dropYAML removes the YAML methods and the yaml import.
func dropYAML(src string) string {
	fs, f := parseSrc(src)
	if f == nil {
		return "PARSEERR"
	}
	var decls []ast.Decl
	for _, d := range f.Decls {
		if fd, ok := d.(*ast.FuncDecl); ok && strings.HasSuffix(fd.Name.Name, "YAML") {
			continue
		}
		if g, ok := d.(*ast.GenDecl); ok && g.Tok == token.IMPORT {
			keep := false
			for _, s := range g.Specs {
				if !strings.Contains(s.(*ast.ImportSpec).Path.Value, "yaml") {
					keep = true
				}
			}
			if !keep {
				continue
			}
		}
		decls = append(decls, d)
	}
	f.Decls = decls
	// comments attached to removed functions go with them
	var cg []*ast.CommentGroup
	for _, g := range f.Comments {
		if !strings.Contains(g.Text(), "YAML") && !strings.Contains(g.Text(), "yaml.") {
			cg = append(cg, g)
		}
	}
	f.Comments = cg
	var b bytes.Buffer
	_ = format.Node(&b, fs, f)
	return b.String()
}

var regexpBacktick = regexp.MustCompile("`[^`]*`")

var identRe = regexp.MustCompile(`[\p{L}_][\p{L}\p{N}_]*`)

// alphaShape abstracts every identifier that is not a Go keyword / predeclared name / package qualifier by the
// index of its first occurrence, drops comments and string literals' identifiers stay (tags are erased first).
func alphaShape(src string) string {
	fs, f := parseSrc(src)
	if f == nil {
		return "PARSEERR"
	}
	f.Comments = nil
	ast.Inspect(f, func(n ast.Node) bool {
		switch t := n.(type) {
		case *ast.Field:
			t.Doc, t.Comment = nil, nil
		case *ast.GenDecl:
			t.Doc = nil
		case *ast.FuncDecl:
			t.Doc = nil
		case *ast.TypeSpec:
			t.Doc, t.Comment = nil, nil
		case *ast.ValueSpec:
			t.Doc, t.Comment = nil, nil
		}
		return true
	})
	names := map[string]string{}
	rename := func(id *ast.Ident) {
		if id == nil || id.Obj == nil && !ast.IsExported(id.Name) {
			return
		}
		if _, ok := names[id.Name]; !ok {
			names[id.Name] = fmt.Sprintf("ID%d", len(names))
		}
	}
	// declared names: types, fields, consts, vars
	for _, d := range f.Decls {
		if g, ok := d.(*ast.GenDecl); ok {
			for _, s := range g.Specs {
				switch sp := s.(type) {
				case *ast.TypeSpec:
					rename(sp.Name)
					ast.Inspect(sp.Type, func(n ast.Node) bool {
						if fl, ok := n.(*ast.Field); ok {
							for _, nm := range fl.Names {
								rename(nm)
							}
						}
						return true
					})
				case *ast.ValueSpec:
					for _, nm := range sp.Names {
						rename(nm)
					}
				}
			}
		}
	}
	var b bytes.Buffer
	_ = format.Node(&b, fs, f)
	out := identRe.ReplaceAllStringFunc(b.String(), func(s string) string {
		// longest declared-name prefix handling: identifiers derived from declared ones (lowerFirst, _0 suffixes, enumValues_)
		if n, ok := names[s]; ok {
			return n
		}
		for _, pre := range []string{"enumValues_"} {
			if strings.HasPrefix(s, pre) {
				if n, ok := names[strings.TrimPrefix(s, pre)]; ok {
					return pre + n
				}
			}
		}
		return s
	})
	// error message texts mention names and property names: drop string literals entirely
	out = regexp.MustCompile("`[^`]*`").ReplaceAllString(out, "``")
	out = regexp.MustCompile(`"(?:[^"\\]|\\.)*"`).ReplaceAllString(out, `""`)
	return out
}

// declSet prints every top-level declaration without comments (imports one per line), drops those for which
// skip returns true, optionally abstracts declared identifiers per declaration, and sorts the result: a
// formatting- and order-independent view of a file.
func declSet(src string, skip func(decl string) bool, alpha bool) string {
	_, f := parseSrc(src)
	if f == nil {
		return "PARSEERR"
	}
	f.Comments = nil
	var out []string
	for _, d := range f.Decls {
		ast.Inspect(d, func(n ast.Node) bool {
			switch t := n.(type) {
			case *ast.Field:
				t.Doc, t.Comment = nil, nil
			case *ast.GenDecl:
				t.Doc = nil
			case *ast.FuncDecl:
				t.Doc = nil
			case *ast.TypeSpec:
				t.Doc, t.Comment = nil, nil
			case *ast.ValueSpec:
				t.Doc, t.Comment = nil, nil
			case *ast.ImportSpec:
				t.Doc, t.Comment = nil, nil
			}
			return true
		})
		var b bytes.Buffer
		_ = printer.Fprint(&b, token.NewFileSet(), d)
		txt := b.String()
		if skip != nil && skip(txt) {
			continue
		}
		if alpha {
			txt = alphaDecl(txt)
		}
		// go/printer breaks lines according to the original positions: compare token text only
		txt = strings.NewReplacer(" ", "", "\n", "", "\t", "", ";", "").Replace(txt)
		out = append(out, txt)
	}
	sort.Strings(out)
	return strings.Join(out, "\n\n")
}

var goKeywords = map[string]bool{"break": true, "case": true, "chan": true, "const": true, "continue": true, "default": true, "defer": true, "else": true, "fallthrough": true, "for": true, "func": true, "go": true, "goto": true, "if": true, "import": true, "interface": true, "map": true, "package": true, "range": true, "return": true, "select": true, "struct": true, "switch": true, "type": true, "var": true,
	"bool": true, "string": true, "int": true, "int8": true, "int16": true, "int32": true, "int64": true, "uint8": true, "uint16": true, "uint32": true, "uint64": true, "float64": true, "error": true, "nil": true, "true": true, "false": true, "byte": true, "len": true, "append": true, "delete": true, "any": true,
	"json": true, "yaml": true, "fmt": true, "errors": true, "reflect": true, "strings": true, "regexp": true, "math": true, "mapstructure": true, "time": true, "types": true, "netip": true,
	"Unmarshal": true, "Marshal": true, "UnmarshalJSON": true, "UnmarshalYAML": true, "MarshalJSON": true, "MarshalYAML": true, "Errorf": true, "Decode": true, "Node": true, "Join": true, "DeepEqual": true, "MatchString": true, "Abs": true, "Mod": true, "TypeOf": true, "NumField": true, "Field": true, "Name": true, "Tag": true, "Get": true, "Split": true, "Sprintf": true,
	"value": true, "raw": true, "plain": true, "Plain": true, "err": true, "ok": true, "v": true, "j": true, "st": true, "i": true, "errs": true, "expected": true, "matched": true, "Time": true, "Addr": true, "SerializableDate": true, "SerializableTime": true, "Value": true, "AdditionalProperties": true, "i0": true, "i1": true, "i2": true, "i3": true}

// alphaDecl replaces every identifier that is not a keyword / predeclared / library / template name by the
// index of its first occurrence in the declaration; string literals are emptied (they quote names).
func alphaDecl(txt string) string {
	txt = regexp.MustCompile("`[^`]*`").ReplaceAllString(txt, "``")
	txt = regexp.MustCompile(`"(?:[^"\\]|\\.)*"`).ReplaceAllString(txt, `""`)
	names := map[string]string{}
	return identRe.ReplaceAllStringFunc(txt, func(s string) string {
		if goKeywords[s] {
			return s
		}
		if _, ok := names[s]; !ok {
			names[s] = fmt.Sprintf("ID%d", len(names))
		}
		return names[s]
	})
}

// toYAML renders a generic JSON value as block YAML; keys that look like integers / booleans / floats are
// written unquoted so that the YAML parser yields non-string keys (which the tool must turn back into strings).
func toYAML(v any, flow bool) []byte {
	var node yaml.Node
	b := core.MustJSON(v)
	generic := genericOfJSON(b)
	_ = node.Encode(generic)
	if flow {
		setFlow(&node)
	}
	out, _ := yaml.Marshal(&node)
	// unquote numeric / boolean-looking keys
	re := regexp.MustCompile(`(?m)^(\s*(?:- )?)"(0|-?[1-9]\d*|true|false|(?:0|[1-9]\d*)\.\d*[1-9])":`)
	return re.ReplaceAll(out, []byte(`$1$2:`))
}

func setFlow(n *yaml.Node) {
	if n.Kind == yaml.MappingNode || n.Kind == yaml.SequenceNode {
		n.Style = yaml.FlowStyle
	}
	for _, c := range n.Content {
		setFlow(c)
	}
}

// cliBinary builds the CLI from /repo's working tree once per process.
var cliBin string

func buildCLI(c *engine.Ctx) string {
	if cliBin != "" {
		return cliBin
	}
	dir, err := os.MkdirTemp("", "gjscli")
	if err != nil {
		return ""
	}
	bin := filepath.Join(dir, "go-jsonschema")
	cmd := exec.Command("go", "build", "-o", bin, ".")
	cmd.Dir = "/repo"
	cmd.Env = core.GoEnv()
	if out, err := cmd.CombinedOutput(); err != nil {
		c.Fail("correspondence", "the CLI does not build from /repo: "+clip(string(out), 500), M{"broken": "go build of the CLI"}, true)
		return ""
	}
	cliBin = bin
	return bin
}

// Cleanup removes what a check run left outside its own temporary directories (the CLI binary built from /repo).
func Cleanup() {
	if cliBin != "" {
		_ = os.RemoveAll(filepath.Dir(cliBin))
		cliBin = ""
	}
}

type cliResult struct {
	Exit    int
	Stdout  string
	Stderr  string
	Files   map[string]string // relative path -> content, after the run
	Timeout bool
}

// runCLI runs the binary in workDir with a clean environment and lists the directory afterwards.
func runCLI(bin, workDir string, stdin string, args ...string) cliResult {
	cmd := exec.Command(bin, args...)
	cmd.Dir = workDir
	cmd.Env = []string{"HOME=" + workDir, "PATH=/usr/bin:/bin"}
	if stdin != "" {
		cmd.Stdin = strings.NewReader(stdin)
	}
	var so, se bytes.Buffer
	cmd.Stdout, cmd.Stderr = &so, &se
	done := make(chan error, 1)
	_ = cmd.Start()
	go func() { done <- cmd.Wait() }()
	res := cliResult{}
	select {
	case err := <-done:
		if ee, ok := err.(*exec.ExitError); ok {
			res.Exit = ee.ExitCode()
		} else if err != nil {
			res.Exit = -1
		}
	case <-time.After(30 * time.Second):
		_ = cmd.Process.Kill()
		res.Timeout = true
		res.Exit = -2
	}
	res.Stdout, res.Stderr = so.String(), se.String()
	res.Files = listDir(workDir)
	return res
}

func listDir(dir string) map[string]string {
	out := map[string]string{}
	_ = filepath.Walk(dir, func(p string, info os.FileInfo, err error) error {
		if err != nil || info.IsDir() {
			return nil
		}
		rel, _ := filepath.Rel(dir, p)
		b, _ := os.ReadFile(p)
		out[rel] = string(b)
		return nil
	})
	return out
}

func relOpts() sgen.Opts {
	o := sgen.AllOpts()
	o.Titles = true
	return o
}

// asciiEscapeJSON rewrites a JSON text so that every non-ASCII character (as UTF-16 code units) and the
// apostrophe appear as \uXXXX escapes: the same JSON document, another spelling.
func asciiEscapeJSON(b []byte) []byte {
	var out strings.Builder
	for _, r := range string(b) {
		switch {
		case r == '\'':
			out.WriteString(`\u0027`)
		case r < 0x80:
			out.WriteRune(r)
		case r >= 0x10000:
			r1, r2 := utf16.EncodeRune(r)
			fmt.Fprintf(&out, `\u%04x\u%04x`, r1, r2)
		default:
			fmt.Fprintf(&out, `\u%04x`, r)
		}
	}
	return []byte(out.String())
}

// toYAMLQuoted: block YAML in which every string scalar (keys included) is double-quoted.
func toYAMLQuoted(v any) []byte {
	var node yaml.Node
	b := core.MustJSON(v)
	generic := genericOfJSON(b)
	_ = node.Encode(generic)
	var walk func(n *yaml.Node)
	walk = func(n *yaml.Node) {
		if n.Kind == yaml.ScalarNode && n.Tag == "!!str" {
			n.Style = yaml.DoubleQuotedStyle
		}
		for _, ch := range n.Content {
			walk(ch)
		}
	}
	walk(&node)
	out, _ := yaml.Marshal(&node)
	return out
}

// genericOfJSON decodes a JSON text into plain Go values for the YAML encoder.  The YAML parser is tried first
// (JSON is YAML; integers stay integers); JSON texts it refuses (a raw DEL, ...) go through encoding/json, with
// integral numbers turned back into ints.
func genericOfJSON(b []byte) any {
	var generic any
	if err := yaml.Unmarshal(b, &generic); err == nil && generic != nil {
		return generic
	}
	var g2 any
	_ = json.Unmarshal(b, &g2)
	var fix func(v any) any
	fix = func(v any) any {
		switch t := v.(type) {
		case float64:
			if t == float64(int64(t)) && t < 1e15 && t > -1e15 {
				return int64(t)
			}
			return t
		case map[string]any:
			for k, x := range t {
				t[k] = fix(x)
			}
			return t
		case []any:
			for i, x := range t {
				t[i] = fix(x)
			}
			return t
		}
		return v
	}
	return fix(g2)
}

// layoutJSON re-serialises a JSON document with another LAYOUT of the same tokens: style "spaced" puts a space before
// and after every ':' and ',', breaks lines with CR LF and indents with tabs (what pretty-printers of other
// ecosystems emit); style "key-escaped" writes the first character of every object key as a \u00XX escape.  The value
// is the same JSON value.
func layoutJSON(b []byte, style string) []byte {
	dec := json.NewDecoder(bytes.NewReader(b))
	dec.UseNumber()
	var out bytes.Buffer
	var write func(depth int) bool
	indent := func(d int) {
		if style == "spaced" {
			out.WriteString("\r\n" + strings.Repeat("\t", d))
		}
	}
	writeKey := func(k string) {
		kb, _ := json.Marshal(k)
		if style == "key-escaped" && len(k) > 0 && k[0] < 0x80 && k[0] != '"' && k[0] != '\\' {
			fmt.Fprintf(&out, `"\u%04x%s`, k[0], string(kb[2:]))
		} else {
			out.Write(kb)
		}
	}
	write = func(depth int) bool {
		tok, err := dec.Token()
		if err != nil {
			return false
		}
		switch t := tok.(type) {
		case json.Delim:
			switch t {
			case '{':
				out.WriteByte('{')
				first := true
				for dec.More() {
					if !first {
						if style == "spaced" {
							out.WriteString(" ,")
						} else {
							out.WriteByte(',')
						}
					}
					first = false
					indent(depth + 1)
					kt, _ := dec.Token()
					writeKey(kt.(string))
					if style == "spaced" {
						out.WriteString(" : ")
					} else {
						out.WriteByte(':')
					}
					write(depth + 1)
				}
				_, _ = dec.Token()
				indent(depth)
				out.WriteByte('}')
			case '[':
				out.WriteByte('[')
				first := true
				for dec.More() {
					if !first {
						if style == "spaced" {
							out.WriteString(" , ")
						} else {
							out.WriteByte(',')
						}
					}
					first = false
					write(depth + 1)
				}
				_, _ = dec.Token()
				out.WriteByte(']')
			}
		case json.Number:
			out.WriteString(t.String())
		default:
			vb, _ := json.Marshal(t)
			out.Write(vb)
		}
		return true
	}
	write(0)
	if style == "spaced" {
		out.WriteString("\r\n")
	}
	return out.Bytes()
}

// GenSeveralTimes generates the schema file n times in the calling process (default options, json tag only).
func GenSeveralTimes(file string, n int) []string {
	content, err := os.ReadFile(file)
	if err != nil {
		return []string{"ERR " + err.Error()}
	}
	cfg := core.DefaultCfg()
	cfg.Tags = []string{"json"}
	var outs []string
	for i := 0; i < n; i++ {
		dir, _ := os.MkdirTemp("", "gjstwice")
		outs = append(outs, genSrc(dir, "schema.json", content, cfg, "urn:c12"))
		_ = os.RemoveAll(dir)
	}
	return outs
}

package checks

import (
	"fmt"
	"strings"
	"unicode"

	"verifharness/internal/core"
	"verifharness/internal/engine"
	"verifharness/internal/sgen"
)

// typedDefsAcrossFiles (C03, type mapping through references): two documents each define `Base` with a member `id`
// of a different JSON type and compose it by the SAME reference text ("#/$defs/Base" inside allOf / anyOf, or as a
// plain reference); with and without `$id`s.  The generated field type of each site must accept exactly the JSON
// type its own document declares: the oracle is the reference validator on the inlined schema.
func typedDefsAcrossFiles(c *engine.Ctx) int {
	types := []string{"string", "integer", "number", "boolean", "array"}
	vals := map[string]any{"string": "s", "integer": 7, "number": 1.5, "boolean": true, "array": []any{}}
	var pcs []*core.PCase
	for _, kw := range []string{"allOf", "anyOf", "plain"} {
		for i, t0 := range types {
			for j, t1 := range types {
				if i == j {
					continue
				}
				for _, ids := range []bool{true, false} {
					base := func(t string) sgen.M {
						return sgen.M{"type": "object", "properties": sgen.M{"id": sgen.M{"type": t}}, "required": []any{"id"}}
					}
					use := func(b sgen.M, inline bool) sgen.M {
						var first any = sgen.M{"$ref": "#/$defs/Base"}
						if inline {
							first = sgen.DeepCopy(b)
						}
						switch kw {
						case "allOf":
							return sgen.M{"allOf": []any{first, sgen.M{"type": "object", "properties": sgen.M{"flag": sgen.M{"type": "boolean"}}}}}
						case "anyOf":
							return sgen.M{"anyOf": []any{first, sgen.M{"type": "object", "properties": sgen.M{"flag": sgen.M{"type": "boolean"}}, "required": []any{"flag"}}}}
						}
						return first.(sgen.M)
					}
					part := func(inline bool) sgen.M {
						return sgen.M{"type": "object", "title": "Part", "properties": sgen.M{"own": use(base(t1), inline)}}
					}
					inlineRoot := sgen.M{"type": "object", "properties": sgen.M{"own": use(base(t0), true), "part": part(true)}}
					mainDoc := sgen.M{"type": "object", "title": "Main", "$defs": sgen.M{"Base": base(t0)},
						"properties": sgen.M{"own": use(base(t0), false), "part": sgen.M{"$ref": "part.json"}}}
					partDoc := part(false)
					partDoc["$defs"] = sgen.M{"Base": base(t1)}
					if ids {
						mainDoc["$id"] = "urn:main"
						partDoc["$id"] = "urn:part"
					}
					var docs []any
					for _, t := range types {
						docs = append(docs, M{"own": M{"id": vals[t]}}, M{"part": M{"own": M{"id": vals[t]}}}, M{"own": M{"id": vals[t0]}, "part": M{"own": M{"id": vals[t]}}})
					}
					lab := []string{kw, t0 + "/" + t1, fmt.Sprintf("ids=%v", ids)}
					in := baseCase("c03-files-inline", inlineRoot, docs, lab...)
					rf := baseCase("c03-files-ref", mainDoc, docs, lab...)
					cfg := core.DefaultCfg()
					cfg.FileName = "main/schema.json"
					if ids {
						cfg.RootType = "Root"
						rf.SchemaID = "urn:main"
					} else {
						cfg.RootType = ""
						rf.SchemaID = ""
					}
					rf.Cfg = cfg
					rf.Files = map[string][]byte{"main/part.json": core.MustJSON(partDoc)}
					pcs = append(pcs, in, rf)
				}
			}
		}
	}
	res := runCases(c, pcs)
	fails := 0
	for i := 0; i+1 < len(res); i += 2 {
		in, rf := res[i], res[i+1]
		if in.RunsJ == nil || rf.RunsJ == nil {
			c.Count("c03-files", "does not generate (skipped): "+clip(rf.Real.ErrMsg, 80))
			continue
		}
		for d := range in.DocJSON {
			if d >= len(in.ModelRuns) {
				continue
			}
			spec, real := in.ModelRuns[d].Spec, rf.RunsJ[d].Kind
			c.Eval("c03-files|" + rf.Case.Labels[0] + "|" + rf.Case.Labels[1] + "|" + rf.Case.Labels[2] + "|" + spec + "|" + real + "|" + classOfDoc(in.DocJSON[d]))
			c.Count("definitions of different type behind one reference text", rf.Case.Labels[0]+" "+rf.Case.Labels[2]+": "+spec+"/"+real)
			if (spec == "valid") != (real == "ok") {
				fails++
				if fails <= 3 {
					c.Fail("oracle", fmt.Sprintf("two documents define Base.id with different types (%s) behind the same reference text (%s, %s): reference says %s, generated code says %s (%s)",
						rf.Case.Labels[1], rf.Case.Labels[0], rf.Case.Labels[2], spec, real, clip(rf.RunsJ[d].Msg, 160)),
						replayOf(rf, d, M{"inline_schema": string(in.SchemaJSON), "files": filesAsStrings(rf.Case.Files)}), false)
				}
			}
		}
	}
	return fails
}

// renamedKeysAcrossScripts (C03, "every typed position"): one schema with typed members at the top, in a nested object
// and in array items, written once with ASCII names and once per script with every name replaced by a word of that
// script (cased scripts incl. Georgian, Greek, Cyrillic, Armenian, Cherokee, Deseret, a digraph letter, full-width
// Latin; caseless scripts: CJK, Arabic, Hebrew, Thai, Devanagari).  The documents are renamed the same way.  The name
// of a property is not part of its type: the renamed program must give every document the verdict the reference gives
// the ASCII document.
func renamedKeysAcrossScripts(c *engine.Ctx) int {
	ascii := []string{"name", "age", "ok", "address", "city", "tags", "zip"}
	scripts := map[string][]string{
		"georgian":   {"სახელი", "ასაკი", "კარგი", "მისამართი", "ქალაქი", "ნიშნები", "ინდექსი"},
		"greek":      {"όνομα", "ηλικία", "εντάξει", "διεύθυνση", "πόλη", "ετικέτες", "κώδικας"},
		"cyrillic":   {"имя", "возраст", "да", "адрес", "город", "метки", "индекс"},
		"armenian":   {"անուն", "տարիք", "լավ", "հասցե", "քաղաք", "պիտակներ", "ինդեքս"},
		"cherokee":   {"ꭰꮿ", "ꭱꮎ", "ꭲꮝ", "ꭳꮒ", "ꭴꮤ", "ꭵꮥ", "ꭶꮦ"},
		"deseret":    {"𐐨𐐩", "𐐪𐐫", "𐐬𐐭", "𐐮𐐯", "𐐰𐐱", "𐐲𐐳", "𐐴𐐵"},
		"digraph":    {"ǆak", "ǉak", "ǌak", "ǳak", "ǆep", "ǉep", "ǌep"},
		"fullwidth":  {"ｎａｍｅ", "ａｇｅ", "ｏｋ", "ａｄｄｒ", "ｃｉｔｙ", "ｔａｇｓ", "ｚｉｐ"},
		"latin-ext":  {"ñame", "élan", "øk", "åddress", "çity", "þags", "žip"},
		"cjk":        {"名前", "年齢", "可", "住所", "都市", "札", "郵便"},
		"arabic":     {"اسم", "عمر", "نعم", "عنوان", "مدينة", "وسوم", "رمز"},
		"hebrew":     {"שם", "גיל", "כן", "כתובת", "עיר", "תגים", "מיקוד"},
		"thai":       {"ชื่อ", "อายุ", "ตกลง", "ที่อยู่", "เมือง", "ป้าย", "รหัส"},
		"devanagari": {"नाम", "आयु", "ठीक", "पता", "शहर", "टैग", "कोड"},
	}
	build := func(n []string) (sgen.M, []any) {
		schema := sgen.M{"type": "object", "properties": sgen.M{
			n[0]: sgen.M{"type": "string"}, n[1]: sgen.M{"type": "integer"}, n[2]: sgen.M{"type": []any{"boolean", "null"}},
			n[3]: sgen.M{"type": "object", "properties": sgen.M{n[4]: sgen.M{"type": "string"}, n[6]: sgen.M{"type": "integer"}}},
			n[5]: sgen.M{"type": "array", "items": sgen.M{"type": "object", "properties": sgen.M{n[0]: sgen.M{"type": "string"}}}}}}
		vals := []any{"s", 7, 1.5, true, []any{}, M{}}
		docs := []any{M{n[0]: "x", n[1]: 3, n[2]: nil, n[3]: M{n[4]: "c", n[6]: 1}, n[5]: []any{M{n[0]: "t"}}}}
		for _, v := range vals {
			docs = append(docs, M{n[0]: v}, M{n[1]: v}, M{n[2]: v}, M{n[3]: M{n[4]: v}}, M{n[3]: M{n[6]: v}}, M{n[5]: []any{M{n[0]: v}}}, M{n[3]: v}, M{n[5]: v})
		}
		return schema, docs
	}
	as, ad := build(ascii)
	twin := baseCase("c03-renamed", as, ad, "ascii")
	pcs := []*core.PCase{twin}
	var order []string
	for _, sc := range core.SortedKeys(scripts) {
		s, d := build(scripts[sc])
		pcs = append(pcs, baseCase("c03-renamed", s, d, sc))
		order = append(order, sc)
	}
	res := runCases(c, pcs)
	fails := 0
	tw := res[0]
	if tw.RunsJ == nil || len(tw.ModelRuns) < len(tw.DocJSON) {
		c.Fail("oracle", "the ASCII twin of the renamed-keys family does not generate: "+tw.Real.ErrMsg+clip(tw.CompileErr, 200), replayOf(tw, -1, nil), false)
		return 1
	}
	for k, sc := range order {
		r := res[k+1]
		if hasTagHostileRune(scripts[sc]) && knownListed(c, "K38-combining-mark-in-property-name") {
			c.Count("renamed keys", sc+": K38 region (a name contains a character encoding/json rejects in a tag name; judged by the listed witness)")
			continue
		}
		if r.RunsJ == nil {
			fails++
			c.Fail("oracle", "property names in "+sc+" script: the program does not generate / compile: "+r.Real.ErrMsg+clip(r.CompileErr, 200), replayOf(r, -1, nil), false)
			continue
		}
		for d := range r.DocJSON {
			spec, real := tw.ModelRuns[d].Spec, r.RunsJ[d].Kind
			c.Eval("c03-renamed|" + sc + "|" + spec + "|" + real + "|" + classOfDoc(tw.DocJSON[d]))
			c.Count("renamed keys", sc+": "+spec+"/"+real)
			if (spec == "valid") != (real == "ok") {
				fails++
				if fails <= 3 {
					c.Fail("oracle", fmt.Sprintf("property names in %s script: reference (on the ASCII spelling %s) says %s, generated code says %s (%s)", sc, tw.DocJSON[d], spec, real, clip(r.RunsJ[d].Msg, 160)),
						replayOf(r, d, M{"ascii_schema": string(tw.SchemaJSON), "ascii_doc": tw.DocJSON[d]}), false)
				}
			}
		}
	}
	return fails
}

// hasTagHostileRune: encoding/json's isValidTag accepts letters, digits and "!#$%&()*+-./:;<=>?@[]^_{|}~ " only.
func hasTagHostileRune(names []string) bool {
	for _, n := range names {
		for _, r := range n {
			if !unicode.IsLetter(r) && !unicode.IsDigit(r) && !strings.ContainsRune("!#$%&()*+-./:;<=>?@[]^_{|}~ ", r) {
				return true
			}
		}
	}
	return false
}

// requiredPunctuatedNames (C04, C11): required members whose names contain characters that mean something to a Go format
// string, a template or a struct tag (`cpu%`, `%s`, `a%b`, `100%`, `{{.}}`, `$1`, `a b`, `a.b`, `x-y`, `#`), at the
// top level, nested, in array items, in an allOf branch and in an anyOf branch (inline or by $ref).  Documents: complete;
// each required key removed; each required key replaced by its %-doubled / look-alike spelling.
func requiredPunctuatedNames(stream string, onlyBranches bool) []*core.PCase {
	var pcs []*core.PCase
	sets := [][]string{{"cpu%", "host"}, {"%s", "100%"}, {"a%b", "a%%b"}, {"%d%v", "x"}, {"{{.}}", "$1"}, {"a b", "a.b"}, {"x-y", "#"}, {"rate%", "name"}}
	for _, set := range sets {
		obj := func() sgen.M {
			props := sgen.M{}
			for _, n := range set {
				props[n] = sgen.M{"type": "integer"}
			}
			return sgen.M{"type": "object", "properties": props, "required": toAnyS(set)}
		}
		full := M{}
		for i, n := range set {
			full[n] = 5 + i
		}
		var vals []any
		vals = append(vals, sgen.DeepCopy(full))
		for _, n := range set {
			d := sgen.DeepCopy(full).(M)
			delete(d, n)
			vals = append(vals, d)
			// the look-alike key instead of the real one
			e := sgen.DeepCopy(d).(M)
			e[strings.ReplaceAll(n, "%", "%%")+"%"] = 1
			vals = append(vals, e)
		}
		type pos struct {
			name   string
			schema sgen.M
			wrap   func(v any) any
		}
		other := sgen.M{"type": "object", "properties": sgen.M{"zz": sgen.M{"type": "boolean"}}, "required": []any{"zz"}}
		positions := []pos{
			{"allOf-inline", sgen.M{"type": "object", "properties": sgen.M{"p": sgen.M{"allOf": []any{obj(), sgen.DeepCopy(other)}}}}, func(v any) any { m := sgen.DeepCopy(v).(M); m["zz"] = true; return M{"p": m} }},
			{"allOf-ref", sgen.M{"type": "object", "$defs": sgen.M{"D": obj()}, "properties": sgen.M{"p": sgen.M{"allOf": []any{sgen.M{"$ref": "#/$defs/D"}, sgen.DeepCopy(other)}}}}, func(v any) any { m := sgen.DeepCopy(v).(M); m["zz"] = true; return M{"p": m} }},
			{"anyOf-inline", sgen.M{"type": "object", "properties": sgen.M{"p": sgen.M{"anyOf": []any{obj(), sgen.DeepCopy(other)}}}}, func(v any) any { return M{"p": v} }},
			{"anyOf-ref", sgen.M{"type": "object", "$defs": sgen.M{"D": obj()}, "properties": sgen.M{"p": sgen.M{"anyOf": []any{sgen.M{"$ref": "#/$defs/D"}, sgen.DeepCopy(other)}}}}, func(v any) any { return M{"p": v} }},
		}
		if !onlyBranches {
			positions = append(positions,
				pos{"top", obj(), func(v any) any { return v }},
				pos{"nested", sgen.M{"type": "object", "properties": sgen.M{"o": obj()}}, func(v any) any { return M{"o": v} }},
				pos{"array-items", sgen.M{"type": "object", "properties": sgen.M{"a": sgen.M{"type": "array", "items": obj()}}}, func(v any) any { return M{"a": []any{sgen.DeepCopy(full), v}} }},
				pos{"definition", sgen.M{"type": "object", "$defs": sgen.M{"D": obj()}, "properties": sgen.M{"d": sgen.M{"$ref": "#/$defs/D"}}}, func(v any) any { return M{"d": v} }})
		}
		for _, p := range positions {
			var docs []any
			for _, v := range vals {
				docs = append(docs, p.wrap(v))
			}
			pcs = append(pcs, baseCase(stream, p.schema, docs, strings.Join(set, " "), p.name))
		}
	}
	return pcs
}

package checks

import (
	"fmt"

	"verifharness/internal/core"
	"verifharness/internal/engine"
	"verifharness/internal/sgen"
)

// typedDefsAcrossFiles (C03, type mapping through references): two documents each define `Base` with a member `id`
// of a different JSON type and compose it by the SAME reference text ("#/$defs/Base" inside allOf / anyOf, or as a
// plain reference); with and without `$id`s.  The generated field type of each site must accept exactly the JSON
// type its own document declares: the oracle is the reference validator on the inlined schema.
func typedDefsAcrossFiles(c *engine.Ctx) int {
	types := []string{"string", "integer", "number", "boolean", "array"}
	vals := map[string]any{"string": "s", "integer": 7, "number": 1.5, "boolean": true, "array": []any{}}
	var pcs []*core.PCase
	for _, kw := range []string{"allOf", "anyOf", "plain"} {
		for i, t0 := range types {
			for j, t1 := range types {
				if i == j {
					continue
				}
				for _, ids := range []bool{true, false} {
					base := func(t string) sgen.M {
						return sgen.M{"type": "object", "properties": sgen.M{"id": sgen.M{"type": t}}, "required": []any{"id"}}
					}
					use := func(b sgen.M, inline bool) sgen.M {
						var first any = sgen.M{"$ref": "#/$defs/Base"}
						if inline {
							first = sgen.DeepCopy(b)
						}
						switch kw {
						case "allOf":
							return sgen.M{"allOf": []any{first, sgen.M{"type": "object", "properties": sgen.M{"flag": sgen.M{"type": "boolean"}}}}}
						case "anyOf":
							return sgen.M{"anyOf": []any{first, sgen.M{"type": "object", "properties": sgen.M{"flag": sgen.M{"type": "boolean"}}, "required": []any{"flag"}}}}
						}
						return first.(sgen.M)
					}
					part := func(inline bool) sgen.M {
						return sgen.M{"type": "object", "title": "Part", "properties": sgen.M{"own": use(base(t1), inline)}}
					}
					inlineRoot := sgen.M{"type": "object", "properties": sgen.M{"own": use(base(t0), true), "part": part(true)}}
					mainDoc := sgen.M{"type": "object", "title": "Main", "$defs": sgen.M{"Base": base(t0)},
						"properties": sgen.M{"own": use(base(t0), false), "part": sgen.M{"$ref": "part.json"}}}
					partDoc := part(false)
					partDoc["$defs"] = sgen.M{"Base": base(t1)}
					if ids {
						mainDoc["$id"] = "urn:main"
						partDoc["$id"] = "urn:part"
					}
					var docs []any
					for _, t := range types {
						docs = append(docs, M{"own": M{"id": vals[t]}}, M{"part": M{"own": M{"id": vals[t]}}}, M{"own": M{"id": vals[t0]}, "part": M{"own": M{"id": vals[t]}}})
					}
					lab := []string{kw, t0 + "/" + t1, fmt.Sprintf("ids=%v", ids)}
					in := baseCase("c03-files-inline", inlineRoot, docs, lab...)
					rf := baseCase("c03-files-ref", mainDoc, docs, lab...)
					cfg := core.DefaultCfg()
					cfg.FileName = "main/schema.json"
					if ids {
						cfg.RootType = "Root"
						rf.SchemaID = "urn:main"
					} else {
						cfg.RootType = ""
						rf.SchemaID = ""
					}
					rf.Cfg = cfg
					rf.Files = map[string][]byte{"main/part.json": core.MustJSON(partDoc)}
					pcs = append(pcs, in, rf)
				}
			}
		}
	}
	res := runCases(c, pcs)
	fails := 0
	for i := 0; i+1 < len(res); i += 2 {
		in, rf := res[i], res[i+1]
		if in.RunsJ == nil || rf.RunsJ == nil {
			c.Count("c03-files", "does not generate (skipped): "+clip(rf.Real.ErrMsg, 80))
			continue
		}
		for d := range in.DocJSON {
			if d >= len(in.ModelRuns) {
				continue
			}
			spec, real := in.ModelRuns[d].Spec, rf.RunsJ[d].Kind
			c.Eval("c03-files|" + rf.Case.Labels[0] + "|" + rf.Case.Labels[1] + "|" + rf.Case.Labels[2] + "|" + spec + "|" + real + "|" + classOfDoc(in.DocJSON[d]))
			c.Count("definitions of different type behind one reference text", rf.Case.Labels[0]+" "+rf.Case.Labels[2]+": "+spec+"/"+real)
			if (spec == "valid") != (real == "ok") {
				fails++
				if fails <= 3 {
					c.Fail("oracle", fmt.Sprintf("two documents define Base.id with different types (%s) behind the same reference text (%s, %s): reference says %s, generated code says %s (%s)",
						rf.Case.Labels[1], rf.Case.Labels[0], rf.Case.Labels[2], spec, real, clip(rf.RunsJ[d].Msg, 160)),
						replayOf(rf, d, M{"inline_schema": string(in.SchemaJSON), "files": filesAsStrings(rf.Case.Files)}), false)
				}
			}
		}
	}
	return fails
}

package checks

import (
	"encoding/json"
	"fmt"
	"math"
	"math/big"
	"os"
	"path/filepath"
	"regexp"
	"strconv"
	"strings"

	"github.com/atombender/go-jsonschema/pkg/mathutils"

	"verifharness/internal/core"
	"verifharness/internal/engine"
	"verifharness/internal/sgen"
)

// xbKinds: absent, false, true, number
type nbCase struct {
	min, max   *float64
	xmin, xmax any // nil | bool | float64
}

func (n nbCase) json(id int) []byte { return n.req("normalize", id) }

func (n nbCase) req(op string, id int) []byte {
	m := M{"op": op, "id": id}
	if n.min != nil {
		m["min"] = core.ExactNumber(*n.min)
	}
	if n.max != nil {
		m["max"] = core.ExactNumber(*n.max)
	}
	if n.xmin != nil {
		m["xmin"] = exactAny(n.xmin)
	}
	if n.xmax != nil {
		m["xmax"] = exactAny(n.xmax)
	}
	return core.MustJSON(m)
}

func exactAny(v any) any {
	if f, ok := v.(float64); ok {
		return core.ExactNumber(f)
	}
	return v
}

func fstr(p *float64) string {
	if p == nil {
		return "nil"
	}
	return new(big.Rat).SetFloat64(*p).RatString()
}

// specAccepts: the stated bounds, read directly (C05's statement), on small exact values.
func (n nbCase) specAccepts(v float64) bool {
	if n.min != nil {
		if b, ok := n.xmin.(bool); ok && b {
			if !(v > *n.min) {
				return false
			}
		} else if !(v >= *n.min) {
			return false
		}
	}
	if q, ok := n.xmin.(float64); ok && !(v > q) {
		return false
	}
	if n.max != nil {
		if b, ok := n.xmax.(bool); ok && b {
			if !(v < *n.max) {
				return false
			}
		} else if !(v <= *n.max) {
			return false
		}
	}
	if q, ok := n.xmax.(float64); ok && !(v < q) {
		return false
	}
	return true
}

func normalizedAccepts(lo, hi *float64, xl, xh bool, v float64) bool {
	if lo != nil {
		if xl {
			if !(v > *lo) {
				return false
			}
		} else if !(v >= *lo) {
			return false
		}
	}
	if hi != nil {
		if xh {
			if !(v < *hi) {
				return false
			}
		} else if !(v <= *hi) {
			return false
		}
	}
	return true
}

// allOrderTypes enumerates presence/kind {absent,false,true,number}² × {absent,present}² × every weak
// ordering of the present constants (values 1..k for k present constants realise all of them).
func allOrderTypes() []nbCase {
	var out []nbCase
	kinds := []int{0, 1, 2, 3} // absent, false, true, number
	for _, kmin := range kinds {
		for _, kmax := range kinds {
			for _, hasMin := range []bool{false, true} {
				for _, hasMax := range []bool{false, true} {
					slots := 0
					if hasMin {
						slots++
					}
					if hasMax {
						slots++
					}
					if kmin == 3 {
						slots++
					}
					if kmax == 3 {
						slots++
					}
					total := 1
					for i := 0; i < slots; i++ {
						total *= 4
					}
					for code := 0; code < total; code++ {
						vals := make([]float64, slots)
						cc := code
						for i := range vals {
							vals[i] = float64(cc%4 + 1)
							cc /= 4
						}
						var n nbCase
						i := 0
						next := func() *float64 { v := vals[i]; i++; return &v }
						if hasMin {
							n.min = next()
						}
						if hasMax {
							n.max = next()
						}
						switch kmin {
						case 1:
							n.xmin = false
						case 2:
							n.xmin = true
						case 3:
							n.xmin = *next()
						}
						switch kmax {
						case 1:
							n.xmax = false
						case 2:
							n.xmax = true
						case 3:
							n.xmax = *next()
						}
						out = append(out, n)
					}
				}
			}
		}
	}
	return out
}

func anyPtr(v any) *any {
	if v == nil {
		return nil
	}
	return &v
}

func (n nbCase) schemaKeys(ty string) M {
	s := M{"type": ty}
	if n.min != nil {
		s["minimum"] = core.ExactNumber(*n.min)
	}
	if n.max != nil {
		s["maximum"] = core.ExactNumber(*n.max)
	}
	if n.xmin != nil {
		s["exclusiveMinimum"] = exactAny(n.xmin)
	}
	if n.xmax != nil {
		s["exclusiveMaximum"] = exactAny(n.xmax)
	}
	return s
}

func init() {
	register("C05", func(c *engine.Ctx) {
		c.Rule = "function level: mathutils.NormalizeBounds on every order type of its arguments (presence/kind {absent,false,true,number}^2 x {absent,present}^2 x all weak orderings of the present constants), judged on 9 probe values on, next to and between the constants; emitted code: one numeric field per program in positions required/optional/nullable/definition/nested x integer/number x order types x multipleOf, documents on, next to and between the effective bounds plus absent and null; integer fields with FRACTIONAL bounds of both signs in every keyword kind (since fix R11) x integers -4..5. A case is non-trivial when at least one stated constraint decides its verdict; distinct = distinct (stream, labels, reference verdict, real verdict, document shape)."
		c.Proofs([]string{"GJS.Props.C05"}, []string{
			"GJS.Props.C05.normLo_spec", "GJS.Props.C05.normHi_spec", "GJS.Props.C05.boundsOK_iff",
			"GJS.Props.C05.float_bounds_exact", "GJS.Props.C05.int_bounds_exact", "GJS.Props.C05.absent_or_null_unchecked",
			"GJS.Props.C05.int_multiple", "GJS.Props.C05.int_multiple_exact", "GJS.Props.C05.spec_multiple_int",
		})
		factsOf(c, "nbComparisons", "genBoundary")
		oracleFails := 0

		// ---- 1. NormalizeBounds on all order types (exhaustive) ----
		cases := allOrderTypes()
		var reqs [][]byte
		var ids []string
		for i, n := range cases {
			reqs = append(reqs, n.json(i))
			ids = append(ids, fmt.Sprint(i))
		}
		ans, err := core.RunLean(reqs, ids)
		if err != nil {
			c.Fail("correspondence", "lean driver failed: "+err.Error(), M{"broken": "driver"}, true)
			return
		}
		probes := []float64{0.5, 1, 1.5, 2, 2.5, 3, 3.5, 4, 4.5}
		fnDis := 0
		for i, n := range cases {
			lo, hi, xl, xh := mathutils.NormalizeBounds(n.min, n.max, anyPtr(n.xmin), anyPtr(n.xmax))
			real := fmt.Sprintf("%s %s %v %v", fstr(lo), fstr(hi), xl, xh)
			model := ""
			if l := ans[fmt.Sprint(i)].First("NB"); l != nil && len(l) > 1 {
				model = l[1]
			}
			c.Count("normalize-kinds", fmt.Sprintf("xmin=%T xmax=%T", n.xmin, n.xmax))
			for _, v := range probes {
				want := n.specAccepts(v)
				got := normalizedAccepts(lo, hi, xl, xh, v)
				c.Eval(fmt.Sprintf("nb|%d|%v|%v", i, v, want))
				if want != got {
					oracleFails++
					if oracleFails <= 3 {
						c.Fail("oracle", fmt.Sprintf("NormalizeBounds(min=%s max=%s xmin=%v xmax=%v) = (%s): value %v accepted=%v but the stated bounds say %v",
							fstr(n.min), fstr(n.max), n.xmin, n.xmax, real, v, got, want),
							M{"kind": "function", "function": "mathutils.NormalizeBounds", "min": n.min, "max": n.max, "xmin": n.xmin, "xmax": n.xmax, "value": v, "real": real, "expected_accept": want}, false)
					}
				}
			}
			// the model may keep an exclusivity flag next to a nil bound; compare what matters
			if real != model && !(lo == nil && hi == nil) || (real != model && model == "") {
				if !equivalentNB(real, model) {
					fnDis++
					if fnDis <= 3 {
						c.Fail("correspondence", "NormalizeBounds: real="+real+" model="+model,
							M{"kind": "function", "function": "mathutils.NormalizeBounds", "min": n.min, "max": n.max, "xmin": n.xmin, "xmax": n.xmax, "broken": "function-level correspondence NormalizeBounds"}, oracleFails == 0)
					}
				}
			}
		}
		c.Exhaustive = append(c.Exhaustive, fmt.Sprintf("NormalizeBounds order types: %d argument tuples x %d probe values", len(cases), len(probes)))
		c.Sample(M{"function": "NormalizeBounds", "min": 2, "max": 3, "xmin": 2.0, "xmax": true, "probes": probes})

		// ---- 2. emitted code ----
		var pcs []*core.PCase
		stride := c.N(37, 5)
		idx := 0
		for _, ty := range []string{"integer", "number"} {
			for _, pos := range AllPositions {
				for _, n := range cases {
					idx++
					if idx%stride != 0 {
						continue
					}
					prop := n.schemaKeys(ty)
					if pos == PosDefault && !withValidDefault(prop, ty, n.specAccepts) {
						continue
					}
					schema, mk := fieldProgram(pos, prop)
					var docs []any
					for _, v := range []float64{0, 1, 2, 3, 4, 5} {
						docs = append(docs, mk(int(v), false))
					}
					if ty == "number" {
						for _, v := range []float64{0.5, 1.5, 2.5, 3.5, 4.5} {
							docs = append(docs, mk(v, false))
						}
					}
					if pos != PosRequired && pos != PosDef && pos != PosNested {
						docs = append(docs, mk(nil, true))
					}
					if pos == PosNullable {
						docs = append(docs, mk(nil, false))
					}
					pcs = append(pcs, baseCase("c05-bounds", schema, docs, ty, string(pos)))
				}
			}
		}
		// fractional bounds on INTEGER fields (in scope since fix R11): every keyword kind, both signs, alone and paired
		fracs := []float64{-2.5, -1.5, -0.5, 0.5, 1.5, 2.25}
		for _, pos := range AllPositions {
			for _, fa := range fracs {
				for _, kw := range []string{"minimum", "maximum", "exclusiveMinimum", "exclusiveMaximum", "minimum+xbool", "maximum+xbool", "pair"} {
					prop := M{"type": "integer"}
					switch kw {
					case "minimum+xbool":
						prop["minimum"], prop["exclusiveMinimum"] = fa, true
					case "maximum+xbool":
						prop["maximum"], prop["exclusiveMaximum"] = fa, true
					case "pair":
						prop["minimum"], prop["exclusiveMaximum"] = fa, fa+2.5
					default:
						prop[kw] = fa
					}
					if pos == PosDefault {
						ok := false
						for _, d := range []int{1, -1, 2, -2, 3, -3, 0} {
							if sgen.LocalValid(prop, d) {
								prop["default"] = d
								ok = true
								break
							}
						}
						if !ok {
							continue
						}
					}
					schema, mk := fieldProgram(pos, prop)
					var docs []any
					for v := -4; v <= 5; v++ {
						docs = append(docs, mk(v, false))
					}
					pcs = append(pcs, baseCase("c05-fractional-int", schema, docs, "integer", string(pos), "fractional-bound"))
				}
			}
		}
		// multipleOf: integral on integers, dyadic on numbers (F05)
		for _, pos := range AllPositions {
			for _, m := range []any{1, 2, 3, 5, 7} {
				prop := M{"type": "integer", "multipleOf": m}
				if c.R.P(0.5) {
					prop["minimum"] = -6
				}
				if pos == PosDefault && !withValidDefault(prop, "integer", func(v float64) bool { return sgen.LocalValid(prop, v) }) {
					continue
				}
				schema, mk := fieldProgram(pos, prop)
				var docs []any
				for v := -10; v <= 10; v++ {
					docs = append(docs, mk(v, false))
				}
				pcs = append(pcs, baseCase("c05-multiple-int", schema, docs, "integer", string(pos), "multipleOf"))
			}
			// every integral and dyadic step, as integer and as float literal (1 and 1.0 are the same JSON number)
			for _, m := range []any{0.5, 0.25, 2, 1.5, 0.125, 1, 1.0, 3, 4, 8, 0.75, 2.5} {
				prop := M{"type": "number", "multipleOf": m}
				if pos == PosDefault {
					prop["default"] = 0
				}
				schema, mk := fieldProgram(pos, prop)
				var docs []any
				for _, v := range []float64{-3, -1.5, -0.75, -0.5, 0, 0.125, 0.25, 0.375, 0.5, 0.75, 1, 1.5, 2, 2.25, 3, 4.5, 6} {
					docs = append(docs, mk(v, false))
				}
				pcs = append(pcs, baseCase("c05-multiple-float", schema, docs, "number", string(pos), "multipleOf"))
			}
		}
		// bounds of very large magnitude on NUMBER members (2^53 … 1e300, as integer text and in exponent form; upper,
		// lower, inclusive, exclusive), documents far from the bound on either side: how the bound is printed into the
		// Go source must not change its value
		for _, bt := range []string{"9007199254740992", "4611686018427387904", "9223372036854775807", "9223372036854775808", "9.5e18", "9999999999999999999", "1e19", "18446744073709551615", "18446744073709551616", "1e20", "1e100", "1e300"} {
			for _, neg := range []bool{false, true} {
				for _, kw := range []string{"maximum", "minimum", "exclusiveMaximum", "exclusiveMinimum"} {
					txt := bt
					if neg {
						txt = "-" + bt
					}
					node := sgen.M{"type": "number", kw: json.Number(txt)}
					schema := sgen.M{"type": "object", "properties": sgen.M{"v": node}, "required": []any{"v"}}
					var docs []any
					for _, d := range []string{"0", "5", "-5", "1e10", "-1e10", "1.5", "1e305", "-1e305"} {
						docs = append(docs, M{"v": json.Number(d)})
					}
					pcs = append(pcs, baseCase("c05-huge-bounds", schema, docs, "number", kw, txt))
				}
			}
		}
		// bounds of a `number` with MANY DECIMALS or a tiny magnitude (coordinates, tolerances, rates): the check compares with
		// the number as stated, not with a rounded rendering of it.  Documents: the bound, its floating-point neighbours, the
		// bound rounded to 3..9 decimals, and values between those
		for _, bt := range []string{"0.1234567", "1.00000049", "0.0000001", "179.9999999", "2.5e-9", "123456.7890123", "0.00000015", "3.14159265358979", "0.3333333333", "1e-12", "99.99999951", "0.000001"} {
			for _, neg := range []bool{false, true} {
				// (multipleOf with such values is the listed finding K3: math.Mod on binary floating point)
				for _, kw := range []string{"maximum", "minimum", "exclusiveMaximum", "exclusiveMinimum"} {
					txt := bt
					if neg {
						txt = "-" + bt
					}
					b, _ := strconv.ParseFloat(txt, 64)
					node := sgen.M{"type": "number", kw: json.Number(txt)}
					schema := sgen.M{"type": "object", "properties": sgen.M{"v": node}, "required": []any{"v"}}
					vals := []float64{b, math.Nextafter(b, math.Inf(1)), math.Nextafter(b, math.Inf(-1)), 0, b * 2, -b, b / 2}
					for dec := 3; dec <= 9; dec++ {
						p := math.Pow(10, float64(dec))
						r := math.Round(b*p) / p
						vals = append(vals, r, (r+b)/2, math.Floor(b*p)/p, math.Ceil(b*p)/p)
					}
					var docs []any
					seen := map[float64]bool{}
					for _, v := range vals {
						if !seen[v] {
							seen[v] = true
							docs = append(docs, M{"v": v})
						}
					}
					pcs = append(pcs, baseCase("c05-long-decimals", schema, docs, "number", kw, txt))
				}
			}
		}
		// a `format` ANNOTATION next to the bounds of a numeric member (OpenAPI spellings: float, double, int32, int64, …):
		// it says nothing about the value's range or divisibility, the stated bounds stay in force
		for fi, format := range []string{"float", "double", "int32", "int64", "uint8", "decimal", "byte", "integer"} {
			for _, ty := range []string{"number", "integer"} {
				for ki, kws := range []M{{"minimum": -2, "maximum": 3}, {"exclusiveMinimum": 0}, {"maximum": 2, "exclusiveMaximum": true}, {"multipleOf": 2}, {"minimum": 1, "multipleOf": 3}} {
					pos := AllPositions[(fi+ki)%len(AllPositions)]
					prop := M{"type": ty, "format": format}
					for k, v := range kws {
						prop[k] = v
					}
					if pos == PosDefault && !withValidDefault(prop, ty, func(v float64) bool { return sgen.LocalValid(prop, v) }) {
						continue
					}
					schema, mk := fieldProgram(pos, prop)
					var docs []any
					for v := -4; v <= 6; v++ {
						docs = append(docs, mk(v, false))
					}
					if ty == "number" {
						docs = append(docs, mk(-2.5, false), mk(0.5, false), mk(3.5, false))
					}
					pcs = append(pcs, baseCase("c05-format-annotation", schema, docs, ty, string(pos), "format="+format))
				}
			}
		}
		// the same schema given as a FILE and on STANDARD INPUT, its bounds spelled in every way JSON allows for one number
		// (100, 100.0, 1e2, 1E2, 1e+2, 10000e-2, big and tiny exponents): the tool emits the same checks
		if bin := buildCLI(c); bin != "" {
			tmpc, _ := os.MkdirTemp("", "gjsc05")
			boundRe := regexp.MustCompile(`(?m)^\s*if .*(>|<|>=|<=) .*\{$`)
			for si, sp := range []string{"100", "100.0", "1e2", "1E2", "1e+2", "10000e-2", "1e21", "1E-3", "-1e2", "0.5e1"} {
				for _, kw := range []string{"maximum", "exclusiveMaximum", "minimum", "exclusiveMinimum", "multipleOf"} {
					if kw == "multipleOf" && (strings.HasPrefix(sp, "-") || sp == "1e21") {
						continue
					}
					text := `{"$id":"urn:s","type":"object","properties":{"ratio":{"type":"number","` + kw + `":` + sp + `},"count":{"type":"integer","` + kw + `":` + sp + `}},"required":["ratio"]}`
					wd := filepath.Join(tmpc, fmt.Sprintf("%d-%s", si, kw))
					_ = os.MkdirAll(wd, 0o755)
					_ = os.WriteFile(filepath.Join(wd, "s.json"), []byte(text), 0o644)
					args := []string{"-p", "x", "--schema-root-type", "urn:s=Root"}
					fromFile := runCLI(bin, wd, "", append(args, "s.json")...)
					fromStdin := runCLI(bin, wd, text, append(args, "-")...)
					c.Programs += 2
					same := fromFile.Exit == fromStdin.Exit && strings.Join(boundRe.FindAllString(fromFile.Stdout, -1), "\n") == strings.Join(boundRe.FindAllString(fromStdin.Stdout, -1), "\n")
					c.Eval(fmt.Sprintf("stdin-vs-file|%s|%s|same=%v|exit=%d", kw, sp, same, fromFile.Exit))
					if !same {
						oracleFails++
						if oracleFails <= 3 {
							c.Fail("oracle", fmt.Sprintf("the schema with %s spelled %s gives other bound checks when read from standard input than when read from a file (exit %d / %d)", kw, sp, fromStdin.Exit, fromFile.Exit),
								M{"kind": "cli-multi", "schema_text": text, "flags": args, "from_file": clip(fromFile.Stdout+fromFile.Stderr, 2500), "from_stdin": clip(fromStdin.Stdout+fromStdin.Stderr, 2500)}, false)
						}
					}
				}
			}
			_ = os.RemoveAll(tmpc)
		}
		for _, pc := range nearDupCases(c, "c05-near-duplicates") {
			l := pc.Labels[0]
			if strings.Contains(l, "minimum") || strings.Contains(l, "maximum") || strings.Contains(l, "multipleOf") || strings.Contains(l, "exclusive") {
				pcs = append(pcs, pc)
			}
		}
		res := runCases(c, pcs)
		oracleFails += verdictOracle(c, res, "numeric bounds / multipleOf", nil)
		for _, r := range res {
			if len(r.DocJSON) > 0 && len(c.Samples) < 6 {
				c.Sample(M{"schema": string(r.SchemaJSON), "doc": r.DocJSON[0], "labels": r.Case.Labels})
			}
		}
		breaks(c, res, nil, oracleFails > 0)
		c.FactsVerdict(oracleFails > 0)
		knownProgramFindings(c)
	})
}

// equivalentNB: the model keeps `exclusive=true` next to a nil bound exactly as the code does; this only
// normalises the textual form of the numbers.
func equivalentNB(a, b string) bool { return a == b }

// withValidDefault puts into prop a default that satisfies prop's own constraints (judged by ok) and is not the
// Go zero value where possible (so that "the absent field is checked as 0" and "gets the default" differ).
func withValidDefault(prop M, ty string, ok func(v float64) bool) bool {
	cands := []float64{3, 2, 4, 1, 5, 6, 7, 10, 14, 15, 21, 35, -5, -6, 0}
	if ty == "number" {
		cands = append([]float64{2.5, 1.5, 3.5, 0.5, 4.5}, cands...)
	}
	for _, cand := range cands {
		if ok(cand) {
			if cand == float64(int(cand)) {
				prop["default"] = int(cand)
			} else {
				prop["default"] = cand
			}
			return true
		}
	}
	return false
}

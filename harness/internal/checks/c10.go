package checks

import (
	"fmt"
	"os"
	"path/filepath"
	"regexp"
	"sort"
	"strings"

	"verifharness/internal/core"
	"verifharness/internal/engine"
	"verifharness/internal/sgen"
)

// factorable: F10 — object schemas and non-nullable scalars that state a type, without enum-less untyped
// shapes, arrays (K2/K20) or nullable types (K16).
func factorable(s sgen.M) bool {
	t, ok := s["type"].(string)
	if !ok {
		return false
	}
	switch t {
	case "object":
		props, _ := s["properties"].(sgen.M)
		return len(props) > 0
	case "string", "integer", "number", "boolean":
		_, hasDefault := s["default"]
		_, isFmt := s["format"]
		_, mult := s["multipleOf"]
		return !hasDefault && !isFmt && !(t == "number" && mult) // K19: multipleOf on a named number does not compile
	}
	return false
}

// collect the property schemas of a tree (path of property names) that may be factored out
func collectFactorable(s sgen.M, path []string, out *[][]string) {
	props, _ := s["properties"].(sgen.M)
	for _, k := range core.SortedKeys(props) {
		ps := props[k].(sgen.M)
		p := append(append([]string(nil), path...), k)
		if factorable(ps) {
			*out = append(*out, p)
		}
		if t, _ := ps["type"].(string); t == "object" {
			collectFactorable(ps, p, out)
		}
	}
}

func getProp(root sgen.M, path []string) sgen.M {
	cur := root
	for _, k := range path {
		cur = cur["properties"].(sgen.M)[k].(sgen.M)
	}
	return cur
}

func setProp(root sgen.M, path []string, v sgen.M) {
	cur := root
	for _, k := range path[:len(path)-1] {
		cur = cur["properties"].(sgen.M)[k].(sgen.M)
	}
	cur["properties"].(sgen.M)[path[len(path)-1]] = v
}

func recursiveDoc(depth int) any {
	var d any = M{"name": "leaf"}
	for i := 0; i < depth; i++ {
		d = M{"name": fmt.Sprintf("n%d", i), "child": d, "kids": []any{d}}
	}
	return d
}

func init() {
	register("C10", func(c *engine.Ctx) {
		c.Rule = "random tree schemas without references; a random choice of factorable sub-schemas (objects, non-nullable typed scalars) is moved into $defs / definitions of the same file, or into sibling files in random directory layouts (.json / .yaml as JSON text and as block YAML, with or without --resolve-extension, with a dot in the file stem, with or without a fragment); the inline program and the reference-form program are compiled and run on the same documents (valid, mutated, single deletions): same verdict, same re-marshalled value; every definition yields exactly one type used by all its referrers. Plus composition across documents: 2-3 files in star or chain layout and different directories, each with its own $defs under the same names (Base, Extra) but different content and the same reference texts used directly, as array items and as allOf/anyOf branches, compared with the single-file form in which every reference is replaced by its target. Plus near-duplicates across files: two sibling files each defining $defs/Options, differing in exactly one keyword (24 perturbations, both orders), both referenced from the main document, compared with the inlined form. Plus symbolic links: the referenced document reached through a symlinked directory (also nested) or being a symlink itself, containing a relative reference that climbs out with .., with a decoy where the unresolved path would lead. Plus self- and mutually recursive definitions with documents nested 1..60 deep (generation must terminate, all depths accepted). Distinct = distinct (form, verdict pair, document shape)."
		c.Proofs([]string{"GJS.Props.C10"}, []string{
			"GJS.Props.C10.spec_ref_is_inline", "GJS.Props.C10.extractRef_defs", "GJS.Props.C10.extractRef_definitions",
			"GJS.Props.C10.extractRef_prefix_equiv", "GJS.Props.C10.extractRef_file", "GJS.Props.C10.cacheKey_separates_directories",
			"GJS.Props.C10.cacheKey_same_directory", "GJS.Props.C10.missing_through_ref", "GJS.Props.C10.wrong_type_through_ref",
		})
		fails := 0
		o := sgen.Opts{Nullable: false, Enums: true, MaxDepth: 3, NoNestedLimits: true}
		var pcs []*core.PCase
		type pairMeta struct {
			form string
			defs []string
		}
		var metas []pairMeta
		for i := 0; i < c.N(120, 2000); i++ {
			g := sgen.New(c.R, o)
			root := g.Root("")
			var cands [][]string
			collectFactorable(root, nil, &cands)
			if len(cands) == 0 {
				continue
			}
			core.Shuffle(c.R, cands)
			// choose non-nested paths
			var chosen [][]string
			for _, p := range cands {
				ok := true
				for _, q := range chosen {
					if strings.HasPrefix(strings.Join(p, "\x00")+"\x00", strings.Join(q, "\x00")+"\x00") || strings.HasPrefix(strings.Join(q, "\x00")+"\x00", strings.Join(p, "\x00")+"\x00") {
						ok = false
					}
				}
				if ok && len(chosen) < 3 {
					chosen = append(chosen, p)
				}
			}
			base := g.FullSample(root, 0)
			if containsNull(base) {
				continue
			}
			docs := append([]any{base}, g.Docs(root, 8)...)
			for _, p := range g.Positions(root, base) {
				for _, k := range p.Required {
					docs = append(docs, sgen.SetAt(base, append(append([]any(nil), p.Path...), k), nil, true))
				}
			}
			inline := baseCase("c10-inline", root, docs)
			// reference form
			form := core.Pick(c.R, []string{"$defs", "definitions", "file", "file-fragment", "file-yaml", "file-noext", "file-noext-dotted-yaml", "file-block-yaml"})
			refRoot := sgen.DeepCopy(root).(sgen.M)
			defs := sgen.M{}
			files := map[string][]byte{}
			var defNames []string
			cfg := core.DefaultCfg()
			cfg.RootType = "Root"
			cfg.FileName = "main/schema.json"
			for di, p := range chosen {
				name := fmt.Sprintf("Def%c", 'A'+di)
				defNames = append(defNames, name)
				target := sgen.DeepCopy(getProp(refRoot, p)).(sgen.M)
				switch form {
				case "$defs":
					defs[name] = target
					setProp(refRoot, p, sgen.M{"$ref": "#/$defs/" + name})
				case "definitions":
					defs[name] = target
					setProp(refRoot, p, sgen.M{"$ref": "#/definitions/" + name})
				case "file", "file-yaml", "file-noext", "file-noext-dotted-yaml", "file-block-yaml":
					dir := core.Pick(c.R, []string{"", "sub/", "../other/"})
					ext := ".json"
					if form == "file-yaml" || form == "file-noext-dotted-yaml" || form == "file-block-yaml" {
						ext = ".yaml"
					}
					stem := strings.ToLower(name)
					if form == "file-noext-dotted-yaml" {
						stem += ".v1" // a dot in the stem: the part after it is not an extension
					}
					fname := dir + stem + ext
					target["title"] = name
					target["$id"] = "urn:" + strings.ToLower(name)
					if target["type"] != "object" {
						// a file's root that is a scalar is declared under the file-derived name
					}
					var data []byte
					switch form {
					case "file-yaml":
						data = core.MustJSON(target) // JSON is YAML
					case "file-noext-dotted-yaml", "file-block-yaml":
						data = toYAML(target, false) // real block-style YAML
					default:
						data = core.MustJSON(target)
					}
					files["main/"+fname] = data
					ref := fname
					if form == "file-noext" {
						ref = dir + strings.ToLower(name)
						cfg.ResolveExtensions = []string{".json"}
					}
					if form == "file-noext-dotted-yaml" {
						ref = dir + stem
						cfg.ResolveExtensions = []string{".json", ".yaml"}
					}
					setProp(refRoot, p, sgen.M{"$ref": ref})
				case "file-fragment":
					fname := "common.json"
					var doc sgen.M
					if old, ok := files["main/"+fname]; ok {
						v, _ := core.ParseJSON(old)
						doc = v.(map[string]any)
					} else {
						doc = sgen.M{"$schema": "x", "$id": "urn:common", "$defs": sgen.M{}}
					}
					doc["$defs"].(map[string]any)[name] = target
					files["main/"+fname] = core.MustJSON(doc)
					setProp(refRoot, p, sgen.M{"$ref": fname + "#/$defs/" + name})
				}
			}
			if len(defs) > 0 {
				if form == "definitions" {
					refRoot["definitions"] = defs
				} else {
					refRoot["$defs"] = defs
				}
			}
			refRoot["$id"] = "urn:main"
			refCase := baseCase("c10-ref-"+form, refRoot, docs)
			refCase.Cfg = cfg
			refCase.SchemaID = "urn:main"
			refCase.Files = files
			pcs = append(pcs, inline, refCase)
			metas = append(metas, pairMeta{form, defNames})
			if form == "$defs" && len(files) == 0 {
				// the same reference form with a stale legacy "definitions" block next to "$defs" (same names, other content)
				staleRoot := sgen.DeepCopy(refRoot).(M)
				if addStaleDefinitions(staleRoot) {
					in2 := *inline
					st := baseCase("c10-ref-$defs+stale-definitions", staleRoot, docs)
					st.Cfg = cfg
					st.SchemaID = "urn:main"
					pcs = append(pcs, &in2, st)
					metas = append(metas, pairMeta{"$defs+stale-definitions", nil})
				}
			}
		}
		// recursion
		recSchemas := map[string]M{
			"self": {"type": "object", "properties": M{"name": M{"type": "string", "minLength": 1}, "child": M{"$ref": "#/$defs/Node"}, "kids": M{"type": "array", "items": M{"$ref": "#/$defs/Node"}}}, "required": []any{"name"},
				"$defs": M{"Node": M{"type": "object", "properties": M{"name": M{"type": "string", "minLength": 1}, "child": M{"$ref": "#/$defs/Node"}, "kids": M{"type": "array", "items": M{"$ref": "#/$defs/Node"}}}, "required": []any{"name"}}}},
			"mutual": {"type": "object", "properties": M{"name": M{"type": "string"}, "child": M{"$ref": "#/$defs/A"}, "kids": M{"type": "array", "items": M{"$ref": "#/$defs/B"}}},
				"$defs": M{"A": M{"type": "object", "properties": M{"name": M{"type": "string"}, "child": M{"$ref": "#/$defs/B"}, "kids": M{"type": "array", "items": M{"$ref": "#/$defs/A"}}}, "required": []any{"name"}},
					"B": M{"type": "object", "properties": M{"name": M{"type": "string"}, "child": M{"$ref": "#/$defs/A"}, "kids": M{"type": "array", "items": M{"$ref": "#/$defs/B"}}}, "required": []any{"name"}}}},
		}
		var recCases []*core.PCase
		for _, name := range core.SortedKeys(recSchemas) {
			var docs []any
			for _, d := range []int{0, 1, 2, 5, 12} {
				docs = append(docs, recursiveDoc(d))
			}
			// a missing required key deep inside
			docs = append(docs, M{"name": "x", "child": M{"name": "y", "child": M{"kids": []any{}}}})
			recCases = append(recCases, baseCase("c10-recursive", recSchemas[name], docs, name))
		}
		allCases := append(append([]*core.PCase{}, pcs...), recCases...)
		res := runCases(c, allCases)
		for i := 0; i+1 < len(pcs); i += 2 {
			in, rf := res[i], res[i+1]
			m := metas[i/2]
			if in.RunsJ == nil {
				continue
			}
			if rf.RunsJ == nil {
				fails++
				if fails <= 3 {
					c.Fail("oracle", "the reference form ("+m.form+") of a schema that generates inline does not generate/compile: "+rf.Real.ErrMsg+rf.Real.Panic+rf.CompileErr, replayOf(rf, -1, M{"files": filesAsStrings(rf.Case.Files)}), false)
				}
				continue
			}
			for d := range in.DocJSON {
				if containsNull(in.Case.Docs[d]) {
					// null at a non-nullable position: the `null` convention (a named scalar's method is not called for
					// null, the inline field's validator runs on the zero value): neither verdict is claimed
					c.Count("c10", "null-document-skipped")
					continue
				}
				a, b := in.RunsJ[d], rf.RunsJ[d]
				c.Eval(fmt.Sprintf("%s|%s/%s|%s", m.form, a.Kind, b.Kind, classOfDoc(in.DocJSON[d])))
				c.Count("inline/ref", m.form+": "+a.Kind+"/"+b.Kind)
				if a.Kind != b.Kind || (a.Kind == "ok" && a.Canon != b.Canon) {
					fails++
					if fails <= 3 {
						c.Fail("oracle", fmt.Sprintf("replacing sub-schemas by references (%s) changes the result: inline %s %s, reference form %s %s", m.form, a.Kind, clip(a.Canon+a.Msg, 150), b.Kind, clip(b.Canon+b.Msg, 150)),
							replayOf(rf, d, M{"inline_schema": string(in.SchemaJSON), "files": filesAsStrings(rf.Case.Files)}), false)
					}
				}
			}
			// one type per definition
			if m.form == "$defs" || m.form == "definitions" {
				for _, dn := range m.defs {
					n := 0
					for _, l := range strings.Split(rf.Real.Summary, " | ") {
						if strings.HasPrefix(l, "type "+dn+" ") {
							n++
						}
					}
					c.Eval("one-type|" + dn)
					if n != 1 {
						fails++
						if fails <= 3 {
							c.Fail("oracle", fmt.Sprintf("definition %s yields %d type declarations (want exactly one)", dn, n), replayOf(rf, -1, nil), false)
						}
					}
				}
			}
			if len(c.Samples) < 6 {
				c.Sample(M{"form": m.form, "schema": clip(string(rf.SchemaJSON), 300), "files": len(rf.Case.Files), "doc": in.DocJSON[0]})
			}
		}
		// recursion: terminates, compiles, accepts every depth, rejects the deep fault
		for _, r := range res[len(pcs):] {
			if r.Real.Timeout || r.Real.Panic != "" || r.RunsJ == nil {
				fails++
				c.Fail("oracle", "a recursive schema does not generate (timeout/panic/compile): "+r.Real.ErrMsg+r.Real.Panic+r.CompileErr, replayOf(r, -1, nil), false)
				continue
			}
			for d, rr := range r.RunsJ {
				c.Eval(fmt.Sprintf("rec|%s|%d|%s", r.Case.Labels[0], d, rr.Kind))
				want := "ok"
				if d == len(r.RunsJ)-1 {
					want = "reject"
				}
				if rr.Kind != want {
					fails++
					if fails <= 3 {
						c.Fail("oracle", fmt.Sprintf("recursive schema: document %d gives %s, expected %s (%s)", d, rr.Kind, want, clip(rr.Msg, 150)), replayOf(r, d, nil), false)
					}
				}
			}
		}
		res = append(res, compositionAcrossFiles(c, &fails)...)
		recursionThroughFiles(c, &fails)
		res = append(res, symlinkLayouts(c, &fails)...)
		res = append(res, unusualFileNames(c, &fails)...)
		cliEqualsLibraryFiles(c, buildCLI(c), &fails)
		res = append(res, nearDupAcrossFiles(c, &fails)...)
		breaks(c, res, map[string]bool{"run-json": true, "gen": true, "compile": true, "summary": true}, fails > 0)
		knownProgramFindings(c)
		knownMultiFileFindings(c)
	})
}

func filesAsStrings(m map[string][]byte) map[string]string {
	out := map[string]string{}
	keys := make([]string, 0, len(m))
	for k := range m {
		keys = append(keys, k)
	}
	sort.Strings(keys)
	for _, k := range keys {
		out[k] = string(m[k])
	}
	return out
}

// recursionThroughFiles: the main document and a sibling refer to each other; the command-line argument and the two
// references are spelled in every combination of plain / "./" / extension-less (with --resolve-extension), with a
// required member (the types get methods) and without.  However the one file is named, it is one schema: the run
// succeeds, and every type and every method is declared exactly once.
var k40Reported bool

func recursionThroughFiles(c *engine.Ctx, fails *int) {
	bin := buildCLI(c)
	if bin == "" {
		return
	}
	tmp, _ := os.MkdirTemp("", "gjsc10r")
	defer os.RemoveAll(tmp)
	declRe := regexp.MustCompile(`(?m)^(type \w+ |func \(j \*\w+\) \w+\()`)
	n := 0
	for _, withReq := range []bool{true, false} {
		for ai, arg := range []string{"tree.json", "./tree.json", "tree", "<abs>/tree.json"} {
			for fi, fwd := range []string{"branch.json", "./branch.json", "branch"} {
				for bi, back := range []string{"tree.json", "./tree.json", "tree"} {
					node := func(id, ref string) M {
						nd := M{"$id": id, "type": "object", "properties": M{"name": M{"type": "string"}, "child": M{"$ref": ref}, "kids": M{"type": "array", "items": M{"$ref": ref}}}}
						if withReq {
							nd["required"] = []any{"name"}
						}
						return nd
					}
					n++
					wd := filepath.Join(tmp, fmt.Sprint(n))
					_ = os.MkdirAll(wd, 0o755)
					files := map[string]string{"tree.json": string(core.MustJSON(node("urn:tree", fwd))), "branch.json": string(core.MustJSON(node("urn:branch", back)))}
					for name, data := range files {
						_ = os.WriteFile(filepath.Join(wd, name), []byte(data), 0o644)
					}
					args := []string{"-p", "forest", "--resolve-extension", ".json", "--schema-root-type", "urn:tree=Tree", "--schema-root-type", "urn:branch=Branch", strings.Replace(arg, "<abs>", wd, 1)}
					res := runCLI(bin, wd, "", args...)
					c.Programs++
					dup := ""
					seen := map[string]bool{}
					for _, m := range declRe.FindAllString(res.Stdout, -1) {
						if seen[m] {
							dup = m
						}
						seen[m] = true
					}
					ok := res.Exit == 0 && dup == "" && seen["type Tree "] && seen["type Branch "]
					c.Eval(fmt.Sprintf("recursion-through-files|req=%v|arg=%d|fwd=%d|back=%d|ok=%v", withReq, ai, fi, bi, ok))
					// listed finding K40: the loader's cache is keyed by the reference text before --resolve-extension is applied,
					// so a file named WITH its extension in one place and WITHOUT in the other is loaded twice; equal type
					// declarations are merged, the methods of a type that has them are emitted twice
					extMismatch := strings.HasSuffix(arg, ".json") != strings.HasSuffix(back, ".json")
					if !ok && extMismatch && withReq && res.Exit == 0 && strings.HasPrefix(dup, "func (j *") {
						c.Count("c10", "recursion through files: K40 region (extension given in one place only)")
						for _, k := range c.KnownFor() {
							if strings.HasPrefix(k.ID, "K40") && !k40Reported {
								k40Reported = true
								c.ReportKnown(k)
							}
						}
						continue
					}
					if !ok {
						*fails++
						if *fails <= 3 {
							c.Fail("oracle", fmt.Sprintf("two files that refer to each other (argument %q, references %q / %q): exit %d, declared twice: %q, %s", arg, fwd, back, res.Exit, dup, clip(res.Stderr, 200)),
								M{"kind": "cli-multi", "files": files, "flags": args, "stdout": clip(res.Stdout, 2500)}, false)
						}
					}
				}
			}
		}
	}
}

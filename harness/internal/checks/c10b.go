package checks

import (
	"fmt"
	"strings"

	"verifharness/internal/core"
	"verifharness/internal/engine"
	"verifharness/internal/sgen"
)

// Composition across documents (C10, "a reference resolves relative to the document it appears in"):
// several schema files, each with its own `$defs` {Base, Extra, …} under the SAME names but with different
// content, each using the SAME reference texts (`#/$defs/Base`, …) directly, as array items and as
// allOf / anyOf branches; the files reach one another through file references (star or chain layout, in
// different directories).  The reference form is compared with the single-file form in which every
// reference is replaced by a copy of its target.
type compFile struct {
	path  string // relative to main/
	defs  sgen.M
	root  sgen.M // properties using local refs (without the links to other files)
	links map[string]int
}

func mergeFlat(bs ...sgen.M) sgen.M {
	props := sgen.M{}
	var req []any
	for _, b := range bs {
		for k, v := range b["properties"].(sgen.M) {
			props[k] = v
		}
		if r, ok := b["required"].([]any); ok {
			req = append(req, r...)
		}
	}
	out := sgen.M{"type": "object", "properties": props}
	if len(req) > 0 {
		out["required"] = req
	}
	return out
}

// substitute replaces every {"$ref": "#/$defs/X"} below v by a copy of defs[X].
func substitute(v any, defs sgen.M) any {
	switch t := v.(type) {
	case sgen.M:
		if r, ok := t["$ref"].(string); ok && strings.HasPrefix(r, "#/$defs/") {
			return substitute(sgen.DeepCopy(defs[strings.TrimPrefix(r, "#/$defs/")]), defs)
		}
		o := sgen.M{}
		for k, x := range t {
			o[k] = substitute(x, defs)
		}
		return o
	case []any:
		o := make([]any, len(t))
		for i, x := range t {
			o[i] = substitute(x, defs)
		}
		return o
	}
	return v
}

// flatten turns allOf/anyOf of objects into the merged object (used only to draw documents).
func flatten(v any) any {
	switch t := v.(type) {
	case sgen.M:
		for _, kw := range []string{"allOf", "anyOf"} {
			if bs, ok := t[kw].([]any); ok {
				var ms []sgen.M
				for _, b := range bs {
					ms = append(ms, flatten(b).(sgen.M))
				}
				return mergeFlat(ms...)
			}
		}
		o := sgen.M{}
		for k, x := range t {
			o[k] = flatten(x)
		}
		return o
	case []any:
		o := make([]any, len(t))
		for i, x := range t {
			o[i] = flatten(x)
		}
		return o
	}
	return v
}

func compositionAcrossFiles(c *engine.Ctx, fails *int) []*core.PResult {
	var pcs []*core.PCase
	var layouts []string
	for i := 0; i < c.N(40, 500); i++ {
		g := sgen.New(c.R, sgen.Opts{MaxDepth: 1, NoNestedLimits: true})
		r := c.R
		nf := r.Range(2, 3)
		chain := r.P(0.5)
		noIDs := i%3 == 2
		kind := "allOf"
		if r.P(0.3) {
			kind = "anyOf"
		}
		paths := []string{"schema.json", core.Pick(r, []string{"f1.json", "sub/f1.json"}), core.Pick(r, []string{"f2.json", "sub/f2.json", "../other/f2.json"})}
		var fs []*compFile
		for k := 0; k < nf; k++ {
			f := &compFile{path: paths[k], links: map[string]int{}}
			// same definition names in every file, different content (distinct property names per file)
			f.defs = sgen.M{
				"Base":  g.ObjBranch([]string{fmt.Sprintf("b%da", k), fmt.Sprintf("b%db", k)}),
				"Extra": g.ObjBranch([]string{fmt.Sprintf("e%da", k)}),
			}
			if kind == "anyOf" {
				// an anyOf branch must have an unmarshal method of its own (K27 is replayed separately)
				f.defs["Base"].(sgen.M)["required"] = []any{fmt.Sprintf("b%da", k)}
				f.defs["Extra"].(sgen.M)["required"] = []any{fmt.Sprintf("e%da", k)}
			}
			props := sgen.M{}
			uses := r.Range(1, 3)
			for u := 0; u < uses; u++ {
				name := fmt.Sprintf("u%d", u)
				switch r.Intn(6) {
				case 4, 5:
					// the definition first, then an inline branch with a property of this use only: the definition is
					// shared by the uses, the inline branches are not
					own := fmt.Sprintf("x%d_%d", k, u)
					br := g.ObjBranch([]string{own})
					if kind == "anyOf" {
						br["required"] = []any{own}
					}
					props[name] = sgen.M{kind: []any{sgen.M{"$ref": "#/$defs/Base"}, br}}
				case 0:
					props[name] = sgen.M{"$ref": "#/$defs/Base"}
				case 1:
					props[name] = sgen.M{"type": "array", "items": sgen.M{"$ref": "#/$defs/" + core.Pick(r, []string{"Base", "Extra"})}}
				default:
					props[name] = sgen.M{kind: []any{sgen.M{"$ref": "#/$defs/Base"}, sgen.M{"$ref": "#/$defs/Extra"}}}
				}
			}
			f.root = sgen.M{"type": "object", "properties": props}
			if r.P(0.5) {
				f.root["required"] = []any{"u0"}
			}
			fs = append(fs, f)
		}
		// links: star (main -> every file) or chain (file k -> file k+1)
		for k := 1; k < nf; k++ {
			from := 0
			if chain {
				from = k - 1
			}
			fs[from].links[fmt.Sprintf("f%d", k)] = k
		}
		relRef := func(from, to string) string {
			// both relative to main/; the reference is relative to the directory of `from`
			fd := ""
			if j := strings.LastIndex(from, "/"); j >= 0 {
				fd = from[:j+1]
			}
			switch {
			case fd == "":
				return to
			case strings.HasPrefix(to, fd):
				return strings.TrimPrefix(to, fd)
			default:
				ups := strings.Repeat("../", strings.Count(fd, "/"))
				return ups + to
			}
		}
		// the inline form of file k (recursively through the links)
		var inlineOf func(k int) sgen.M
		inlineOf = func(k int) sgen.M {
			f := fs[k]
			root := substitute(sgen.DeepCopy(f.root), f.defs).(sgen.M)
			for name, to := range f.links {
				root["properties"].(sgen.M)[name] = inlineOf(to)
			}
			return root
		}
		inlineRoot := inlineOf(0)
		flat := flatten(sgen.DeepCopy(inlineRoot)).(sgen.M)
		docs := append([]any{g.FullSample(flat, 0)}, g.Docs(flat, 10)...)
		// … and documents in which every use also carries the members of its sibling uses, once as they are and once with
		// a value of another JSON type: what one use declares must not leak into another through the shared definition
		docs = append(docs, crossPollinate(g.FullSample(flat, 0), false), crossPollinate(g.FullSample(flat, 0), true))
		files := map[string][]byte{}
		var mainSchema sgen.M
		for k, f := range fs {
			doc := sgen.DeepCopy(f.root).(sgen.M)
			for name, to := range f.links {
				doc["properties"].(sgen.M)[name] = sgen.M{"$ref": relRef(f.path, fs[to].path)}
			}
			doc["$defs"] = sgen.DeepCopy(f.defs)
			doc["$id"] = fmt.Sprintf("urn:f%d", k)
			doc["title"] = fmt.Sprintf("File%d", k)
			if k == 0 {
				doc["$id"] = "urn:main"
			}
			if noIDs {
				// no document says who it is: whatever is kept per schema id is then kept under the same (empty) id
				delete(doc, "$id")
			}
			if k == 0 {
				mainSchema = doc
			} else {
				files["main/"+f.path] = core.MustJSON(doc)
			}
		}
		in := baseCase("c10-comp-inline", inlineRoot, docs)
		rf := baseCase("c10-comp-ref", mainSchema, docs)
		cfg := core.DefaultCfg()
		cfg.RootType = "Root"
		cfg.FileName = "main/schema.json"
		rf.Cfg = cfg
		rf.SchemaID = "urn:main"
		if noIDs {
			rf.SchemaID = ""
			rf.Cfg.RootType = ""
		}
		rf.Files = files
		pcs = append(pcs, in, rf)
		lay := "star"
		if chain {
			lay = "chain"
		}
		if noIDs {
			lay += "/no-$id"
		}
		layouts = append(layouts, fmt.Sprintf("%s/%s/%d-files", kind, lay, nf))
	}
	res := runCases(c, pcs)
	for i := 0; i+1 < len(res); i += 2 {
		in, rf := res[i], res[i+1]
		lay := layouts[i/2]
		if in.RunsJ == nil {
			c.Count("composition", lay+": inline form does not generate (skipped)")
			continue
		}
		if rf.RunsJ == nil {
			*fails++
			if *fails <= 3 {
				c.Fail("oracle", "several files with same-named definitions ("+lay+"): the inline form generates, the reference form does not: "+rf.Real.ErrMsg+rf.Real.Panic+clip(rf.CompileErr, 300), replayOf(rf, -1, M{"inline_schema": string(in.SchemaJSON), "files": filesAsStrings(rf.Case.Files)}), false)
			}
			continue
		}
		for d := range in.DocJSON {
			if containsNull(in.Case.Docs[d]) {
				c.Count("c10", "null-document-skipped")
				continue
			}
			a, b := in.RunsJ[d], rf.RunsJ[d]
			c.Eval(fmt.Sprintf("comp|%s|%s/%s|%s", lay, a.Kind, b.Kind, classOfDoc(in.DocJSON[d])))
			c.Count("composition inline/ref", lay+": "+a.Kind+"/"+b.Kind)
			if a.Kind != b.Kind || (a.Kind == "ok" && a.Canon != b.Canon) {
				*fails++
				if *fails <= 3 {
					c.Fail("oracle", fmt.Sprintf("several files with same-named definitions and the same reference texts (%s): replacing the references by their targets changes the result: inline %s %s, reference form %s %s", lay, a.Kind, clip(a.Canon+a.Msg, 150), b.Kind, clip(b.Canon+b.Msg, 150)),
						replayOf(rf, d, M{"inline_schema": string(in.SchemaJSON), "files": filesAsStrings(rf.Case.Files)}), false)
				}
			}
		}
	}
	return res
}

// crossPollinate gives every object-valued member of every object in the document the members its sibling objects
// have and it lacks (twisted: with a value of another JSON type).
func crossPollinate(doc any, twisted bool) any {
	switch t := doc.(type) {
	case map[string]any:
		union := map[string]any{}
		for _, v := range t {
			if o, ok := v.(map[string]any); ok {
				for k, x := range o {
					if _, isObj := x.(map[string]any); !isObj {
						union[k] = x
					}
				}
			}
		}
		out := map[string]any{}
		for k, v := range t {
			w := crossPollinate(v, twisted)
			if o, ok := w.(map[string]any); ok {
				for uk, ux := range union {
					if _, has := o[uk]; !has {
						if twisted {
							if _, isStr := ux.(string); isStr {
								ux = 7
							} else {
								ux = "§"
							}
						}
						o[uk] = ux
					}
				}
			}
			out[k] = w
		}
		return out
	case []any:
		out := make([]any, len(t))
		for i, v := range t {
			out[i] = crossPollinate(v, twisted)
		}
		return out
	}
	return doc
}

// symlinkLayouts (C10, "file resolution relative to the referring document, symlinks"): the referenced document
// is reached through a symlinked directory or is itself a symlink, and contains a relative reference that climbs
// out with `..`; that reference is relative to the document's REAL location.  A decoy with other content sits
// where the unresolved path would lead.
func symlinkLayouts(c *engine.Ctx, fails *int) []*core.PResult {
	country := func(n int) sgen.M {
		return sgen.M{"$schema": "x", "$id": fmt.Sprintf("urn:types%d", n), "$defs": sgen.M{"Country": sgen.M{"type": "string", "minLength": n, "maxLength": n + 1}}}
	}
	address := func(ref string) sgen.M {
		return sgen.M{"$id": "urn:address", "title": "Address", "type": "object", "properties": sgen.M{"country": sgen.M{"$ref": ref}}, "required": []any{"country"}}
	}
	inline := sgen.M{"type": "object", "properties": sgen.M{"shipTo": sgen.M{"type": "object", "properties": sgen.M{"country": sgen.M{"type": "string", "minLength": 2, "maxLength": 3}}, "required": []any{"country"}}}}
	docs := []any{M{"shipTo": M{"country": "FR"}}, M{"shipTo": M{"country": "FRA"}}, M{"shipTo": M{"country": "France"}}, M{"shipTo": M{"country": "F"}}, M{"shipTo": M{}}, M{}}
	type layout struct {
		name     string
		ref      string
		files    map[string][]byte
		symlinks map[string]string
	}
	layouts := []layout{
		{"symlinked-directory", "vendor/address.json",
			map[string][]byte{"shared/address.json": core.MustJSON(address("../base/types.json#/$defs/Country")), "base/types.json": core.MustJSON(country(2)), "main/base/types.json": core.MustJSON(country(6))},
			map[string]string{"main/vendor": "../shared"}},
		{"symlinked-file", "address.json",
			map[string][]byte{"shared/address.json": core.MustJSON(address("../base/types.json#/$defs/Country")), "base/types.json": core.MustJSON(country(2)), "main/../decoy/types.json": core.MustJSON(country(6))},
			map[string]string{"main/address.json": "../shared/address.json"}},
		{"symlinked-directory-nested", "links/v/address.json",
			map[string][]byte{"deep/er/shared/address.json": core.MustJSON(address("../../../base/types.json#/$defs/Country")), "base/types.json": core.MustJSON(country(2)), "main/base/types.json": core.MustJSON(country(6)), "main/links/base/types.json": core.MustJSON(country(6))},
			map[string]string{"main/links/v": "../../deep/er/shared"}},
		{"plain-directory (control)", "../shared/address.json",
			map[string][]byte{"shared/address.json": core.MustJSON(address("../base/types.json#/$defs/Country")), "base/types.json": core.MustJSON(country(2))}, nil},
	}
	var pcs []*core.PCase
	for _, l := range layouts {
		in := baseCase("c10-symlink-inline", sgen.DeepCopy(inline).(sgen.M), docs, l.name)
		main := sgen.M{"$id": "urn:main", "type": "object", "properties": sgen.M{"shipTo": sgen.M{"$ref": l.ref}}}
		rf := baseCase("c10-symlink-ref", main, docs, l.name)
		cfg := core.DefaultCfg()
		cfg.RootType = "Root"
		cfg.FileName = "main/schema.json"
		rf.Cfg = cfg
		rf.SchemaID = "urn:main"
		rf.Files = l.files
		rf.Symlinks = l.symlinks
		pcs = append(pcs, in, rf)
	}
	res := runCases(c, pcs)
	for i := 0; i+1 < len(res); i += 2 {
		in, rf := res[i], res[i+1]
		name := rf.Case.Labels[0]
		if in.RunsJ == nil {
			continue
		}
		if rf.RunsJ == nil {
			*fails++
			c.Fail("oracle", "a reference through a symbolic link ("+name+") does not generate although the inline form does: "+rf.Real.ErrMsg+rf.Real.Panic+clip(rf.CompileErr, 200), replayOf(rf, -1, M{"files": filesAsStrings(rf.Case.Files), "symlinks": rf.Case.Symlinks}), false)
			continue
		}
		for d := range in.DocJSON {
			a, b := in.RunsJ[d], rf.RunsJ[d]
			c.Eval(fmt.Sprintf("symlink|%s|%s/%s|%d", name, a.Kind, b.Kind, d))
			if a.Kind != b.Kind || (a.Kind == "ok" && a.Canon != b.Canon) {
				*fails++
				if *fails <= 3 {
					c.Fail("oracle", fmt.Sprintf("a reference inside a document reached through a symbolic link (%s) is not resolved relative to the document's real location: inline %s %s, reference form %s %s", name, a.Kind, clip(a.Canon+a.Msg, 120), b.Kind, clip(b.Canon+b.Msg, 120)),
						replayOf(rf, d, M{"files": filesAsStrings(rf.Case.Files), "symlinks": rf.Case.Symlinks}), false)
				}
			}
		}
	}
	return res
}

// nearDupAcrossFiles (C10): two sibling files each define `$defs/Options`, the two definitions differing in exactly
// ONE keyword (the perturbations of neardup.go: a bound, a format, required, a default, ...); the main document
// refers to both.  The reference form must behave like the form with both definitions inlined: the second
// reference must not be served by the first file's type.
func nearDupAcrossFiles(c *engine.Ctx, fails *int) []*core.PResult {
	var pcs []*core.PCase
	for _, p := range nearDupPerturbations() {
		for _, swap := range []bool{false, true} {
			a, b := p.a, p.b
			if swap {
				a, b = b, a
			}
			var docs []any
			for _, x := range p.docs {
				for _, y := range p.docs {
					docs = append(docs, pairDoc("primary", x, "secondary", y))
				}
			}
			inline := sgen.M{"type": "object", "properties": sgen.M{"primary": sgen.DeepCopy(a), "secondary": sgen.DeepCopy(b)}}
			in := baseCase("c10-neardup-inline", inline, docs, p.name, fmt.Sprint(swap))
			main := sgen.M{"$id": "urn:main", "type": "object", "properties": sgen.M{
				"primary": sgen.M{"$ref": "primary.json#/$defs/Options"}, "secondary": sgen.M{"$ref": "secondary.json#/$defs/Options"}}}
			rf := baseCase("c10-neardup-ref", main, docs, p.name, fmt.Sprint(swap))
			cfg := core.DefaultCfg()
			cfg.RootType = "Root"
			cfg.FileName = "main/schema.json"
			rf.Cfg = cfg
			rf.SchemaID = "urn:main"
			rf.Files = map[string][]byte{
				"main/primary.json":   core.MustJSON(sgen.M{"$schema": "x", "$id": "urn:primary", "$defs": sgen.M{"Options": sgen.DeepCopy(a)}}),
				"main/secondary.json": core.MustJSON(sgen.M{"$schema": "x", "$id": "urn:secondary", "$defs": sgen.M{"Options": sgen.DeepCopy(b)}}),
			}
			pcs = append(pcs, in, rf)
		}
	}
	res := runCases(c, pcs)
	for i := 0; i+1 < len(res); i += 2 {
		in, rf := res[i], res[i+1]
		name := rf.Case.Labels[0]
		if in.RunsJ == nil {
			continue
		}
		if rf.RunsJ == nil {
			*fails++
			if *fails <= 3 {
				c.Fail("oracle", "same-named definitions in two files differing in "+name+": the inline form generates, the reference form does not: "+rf.Real.ErrMsg+rf.Real.Panic+clip(rf.CompileErr, 200), replayOf(rf, -1, M{"files": filesAsStrings(rf.Case.Files)}), false)
			}
			continue
		}
		for d := range in.DocJSON {
			if containsNull(in.Case.Docs[d]) {
				continue
			}
			a, b := in.RunsJ[d], rf.RunsJ[d]
			c.Eval(fmt.Sprintf("neardup-files|%s|%s/%s|%d", name, a.Kind, b.Kind, d))
			if a.Kind != b.Kind || (a.Kind == "ok" && a.Canon != b.Canon) {
				*fails++
				if *fails <= 3 {
					c.Fail("oracle", fmt.Sprintf("same-named definitions in two files differing only in %s: inline %s %s, reference form %s %s", name, a.Kind, clip(a.Canon+a.Msg, 120), b.Kind, clip(b.Canon+b.Msg, 120)),
						replayOf(rf, d, M{"files": filesAsStrings(rf.Case.Files), "inline_schema": string(in.SchemaJSON)}), false)
				}
			}
		}
	}
	return res
}

// unusualFileNames (C10, "a file path resolved relative to the referring document"): the referenced document's name
// or directory contains characters that mean something elsewhere — a colon (URL scheme?), a space, '+', '@',
// ',', '~', brackets, several dots, a leading digit, non-ASCII — written bare ("defs/x"), with "./", with a fragment
// and without.  The reference form must behave like the inline form.
func unusualFileNames(c *engine.Ctx, fails *int) []*core.PResult {
	point := sgen.M{"type": "object", "properties": sgen.M{"lat": sgen.M{"type": "number", "minimum": -90, "maximum": 90}, "lon": sgen.M{"type": "number"}}, "required": []any{"lat"}}
	inline := sgen.M{"type": "object", "properties": sgen.M{"at": sgen.DeepCopy(point)}}
	docs := []any{M{"at": M{"lat": 10, "lon": 20}}, M{"at": M{"lat": 100}}, M{"at": M{"lon": 1}}, M{"at": M{"lat": "x"}}, M{"at": 5}, M{}}
	names := []string{"geo:point.json", "geo point.json", "a+b.json", "x@y.json", "x,y.json", "~tmp.json", "p[1].json", "v1.2.3.json", "2fast.json", "pünkt.json", "点.json", "a=b.json", "a&b.json", "a;b.json", "UPPER.JSON.json", "-dash.json", "_under.json"}
	var pcs []*core.PCase
	var labels []string
	for _, nm := range names {
		for _, dir := range []string{"", "defs/", "de:fs/", "d e/"} {
			for _, prefix := range []string{"", "./"} {
				for _, frag := range []bool{false, true} {
					if !c.Thorough() && (len(pcs)/2)%3 != 0 && dir != "defs/" {
						// quick tier: every name in defs/ in all four spellings, the other directories sampled
						if !(prefix == "" && !frag) {
							continue
						}
					}
					if first := strings.SplitN(dir+nm, "/", 2)[0]; prefix == "" && strings.Contains(first, ":") {
						// RFC 3986 §4.2: the first segment of a relative-path reference cannot contain a colon (it would be a
						// scheme); such a name must be written with "./"
						continue
					}
					target := sgen.M{"$id": "urn:point", "title": "Point"}
					ref := prefix + dir + nm
					if frag {
						target["$defs"] = sgen.M{"Point": sgen.DeepCopy(point)}
						target["type"] = "object"
						ref += "#/$defs/Point"
					} else {
						for k, v := range sgen.DeepCopy(point).(sgen.M) {
							target[k] = v
						}
					}
					main := sgen.M{"$id": "urn:main", "type": "object", "properties": sgen.M{"at": sgen.M{"$ref": ref}}}
					in := baseCase("c10-names-inline", sgen.DeepCopy(inline).(sgen.M), docs, nm)
					rf := baseCase("c10-names-ref", main, docs, nm)
					cfg := core.DefaultCfg()
					cfg.RootType = "Root"
					cfg.FileName = "main/schema.json"
					rf.Cfg = cfg
					rf.SchemaID = "urn:main"
					rf.Files = map[string][]byte{"main/" + dir + nm: core.MustJSON(target)}
					pcs = append(pcs, in, rf)
					labels = append(labels, ref)
				}
			}
		}
	}
	res := runCases(c, pcs)
	for i := 0; i+1 < len(res); i += 2 {
		in, rf := res[i], res[i+1]
		ref := labels[i/2]
		if in.RunsJ == nil {
			continue
		}
		c.Count("unusual file names", "compared")
		if rf.RunsJ == nil {
			*fails++
			if *fails <= 3 {
				c.Fail("oracle", fmt.Sprintf("the reference %q to an existing sibling file does not generate although the inline form does: %s", ref, rf.Real.ErrMsg+rf.Real.Panic+clip(rf.CompileErr, 200)),
					replayOf(rf, -1, M{"files": filesAsStrings(rf.Case.Files)}), false)
			}
			continue
		}
		for d := range in.DocJSON {
			a, b := in.RunsJ[d], rf.RunsJ[d]
			c.Eval(fmt.Sprintf("names|%s|%s/%s|%d", ref, a.Kind, b.Kind, d))
			if a.Kind != b.Kind || (a.Kind == "ok" && a.Canon != b.Canon) {
				*fails++
				if *fails <= 3 {
					c.Fail("oracle", fmt.Sprintf("reference %q: replacing it by its target changes the result: inline %s %s, reference form %s %s", ref, a.Kind, clip(a.Canon+a.Msg, 120), b.Kind, clip(b.Canon+b.Msg, 120)),
						replayOf(rf, d, M{"files": filesAsStrings(rf.Case.Files)}), false)
				}
			}
		}
	}
	return res
}

package checks

import (
	"fmt"
	"go/parser"
	"go/token"
	"os"
	"path/filepath"
	"strings"

	"verifharness/internal/core"
	"verifharness/internal/engine"
	"verifharness/internal/sgen"
)

// issueToFinding: the model's predicted non-compiling constructs, each a listed known-finding class.
var issueToFinding = map[string]string{
	"mod-named-type":              "K19-multipleOf-named-number",
	"duplicate-method":            "K21-composite-definition",
	"redeclared-type":             "K21-composite-definition",
	"default-literal":             "K4-default-literal",
	"duplicate-enum-constant":     "K5-enum-constant-collision",
	"addl-raw-undeclared":         "K24-addl-raw-undeclared",
	"int-literal-overflow":        "K25-int-literal-overflow",
	"missing-import":              "K26-format-pointer-import",
	"anyof-branch-without-method": "K27-anyOf-ref-without-method",
	"duplicate-field-name":        "K28-user-identifier-collides",
}

// where the model does not cover a program (unsupported), a compile failure is attributed by its message
var compileErrToFinding = []struct{ pat, id string }{
	{"undefined: netip", "K26-format-pointer-import"}, {"undefined: types", "K26-format-pointer-import"}, {"undefined: time", "K26-format-pointer-import"},
	{"in argument to math.Mod", "K19-multipleOf-named-number"}, {"already declared", "K21-composite-definition"}, {"redeclared in this block", "K21-composite-definition"}, {"undefined: raw", "K24-addl-raw-undeclared"},
	{"overflows", "K25-int-literal-overflow"}, {"value in assignment", "K4-default-literal"}, {".UnmarshalJSON undefined", "K27-anyOf-ref-without-method"}, {".UnmarshalYAML undefined", "K27-anyOf-ref-without-method"},
}

var hostileTexts = []string{
	"line one\nline two", "with \"double\" and 'single' quotes", "a comment terminator */ inside", "/* opener", "back\\slash", "percent %d %s %% signs",
	"tab\there", "carriage\rreturn", "unicode line separator   here", strings.Repeat("averyveryverylongwordwithoutanyspaces", 9),
	"`backtick`", "// looks like a comment", "ends with backslash\\", "emoji 😀 and 日本語", " leading and trailing ", "",
	"many\n\n\nblank\n\nlines", "{{template}} ${var} #{x}",
}

func init() {
	register("C01", func(c *engine.Ctx) {
		c.Rule = "random schemas over all supported features x random option sets (--extra-imports, --only-models, --min-sized-ints, --tags, --capitalization, --struct-name-from-title), systematic feature pairs (constraint kind x position x nullable x default x format), and hostile free text (newlines, quotes, comment terminators, backslashes, %, 300-character words, U+2028, backticks) in descriptions and titles, every constraint keyword alone in a file (23 keywords x optional / required / definition / array item x option sets), non-ASCII names (combining marks, Indic vowel signs, CJK, Greek, Cyrillic) as property / definition / enum-member / title names, and distinct but structurally equal declarations (a string enum listing a member twice at property / definition / items position; two property paths with the same scope name, each an anyOf / allOf over the same $refs); every emitted file must be accepted by go/format (and be a fixed point of it), produce no 'could not be formatted' warning, parse, and compile against exactly its declared imports in a batch go build. A compile failure is tolerated only when the model predicted it AND its class is a listed known finding; the model's predicted import set and declaration summary are diffed against go/ast. Distinct = distinct (stream, option set, outcome, schema shape)."
		c.Proofs([]string{"GJS.Props.C01"}, []string{
			"GJS.Props.C01.addImport_imports", "GJS.Props.C01.addImport_mono", "GJS.Props.C01.addImport_idempotent",
			"GJS.Props.C01.string_validator_imports_regexp", "GJS.Props.C01.numeric_validator_only_if_it_emits", "GJS.Props.C01.shadowName_differs",
		})
		factsOf(c, "addImports", "templateQualifiers")
		var pcs []*core.PCase
		// (a) random x options
		for i := 0; i < c.N(400, 6000); i++ {
			g := sgen.New(c.R, relOpts())
			root := g.Root("")
			pc := baseCase("c01-random", root, nil)
			pc.Cfg = randomCfg(c)
			pc.Cfg.StructNameFromTitle = c.R.P(0.3)
			if c.R.P(0.5) {
				pc.Cfg.RootType = ""
				pc.Cfg.FileName = core.Pick(c.R, []string{"schema.json", "my-config.schema.json", "v1.json", "Plain.json"})
			}
			pcs = append(pcs, pc)
		}
		// (b) systematic feature pairs
		kinds := map[string]sgen.M{
			"int-bounds": {"type": "integer", "minimum": 1, "maximum": 9}, "int-xbool": {"type": "integer", "minimum": 1, "exclusiveMinimum": true},
			"int-xbool-alone": {"type": "integer", "exclusiveMinimum": true}, "int-mult": {"type": "integer", "multipleOf": 3},
			"num-bounds": {"type": "number", "exclusiveMinimum": 0, "maximum": 1.5}, "num-mult": {"type": "number", "multipleOf": 0.5},
			"str-len": {"type": "string", "minLength": 1, "maxLength": 5}, "str-pat": {"type": "string", "pattern": "^[a-z]*$"},
			"arr-len": {"type": "array", "items": sgen.M{"type": "string"}, "minItems": 1, "maxItems": 3}, "arr-nested": {"type": "array", "items": sgen.M{"type": "array", "items": sgen.M{"type": "integer"}}, "minItems": 1},
			"enum-str": {"type": "string", "enum": []any{"a", "b"}}, "enum-mixed": {"enum": []any{1, "a", nil}}, "bool": {"type": "boolean"},
			"fmt-date": {"type": "string", "format": "date"}, "fmt-ip": {"type": "string", "format": "ipv4"}, "fmt-dt": {"type": "string", "format": "date-time"},
			"obj": {"type": "object", "properties": sgen.M{"x": sgen.M{"type": "integer", "minimum": 2}}, "required": []any{"x"}},
			"map": {"type": "object", "additionalProperties": sgen.M{"type": "integer"}}, "null": {"type": "null"}, "any": {},
			"addl-true":  {"type": "object", "properties": sgen.M{"x": sgen.M{"type": "string", "minLength": 2}}, "additionalProperties": true},
			"addl-typed": {"type": "object", "properties": sgen.M{"x": sgen.M{"type": "string"}}, "additionalProperties": sgen.M{"type": "string"}},
			"ext-type":   {"goJSONSchema": sgen.M{"type": "uint32"}}, "ext-ident": {"type": "string", "goJSONSchema": sgen.M{"identifier": "CustomName"}},
		}
		names := core.SortedKeys(kinds)
		for i, a := range names {
			for j, b := range names {
				if j < i {
					continue
				}
				if !c.Thorough() && (i+j)%3 != 0 {
					continue
				}
				for _, variant := range []string{"plain", "nullable", "required", "definition"} {
					pa, pb := sgen.DeepCopy(kinds[a]).(sgen.M), sgen.DeepCopy(kinds[b]).(sgen.M)
					schema := sgen.M{"type": "object", "properties": sgen.M{"first": pa, "second": pb}}
					switch variant {
					case "nullable":
						if t, ok := pa["type"].(string); ok && t != "null" && t != "object" {
							pa["type"] = []any{t, "null"}
						}
					case "required":
						schema["required"] = []any{"first", "second"}
					case "definition":
						schema = sgen.M{"type": "object", "properties": sgen.M{"first": sgen.M{"$ref": "#/$defs/A"}, "second": pb}, "$defs": sgen.M{"A": pa}}
					}
					pc := baseCase("c01-pairs", schema, nil, a, b, variant)
					pc.Cfg.ExtraImports = (i+j)%2 == 0
					pc.Cfg.MinSizedInts = (i+j)%5 == 0
					pcs = append(pcs, pc)
				}
			}
		}
		// (c) hostile text in descriptions and titles
		for _, txt := range hostileTexts {
			schema := sgen.M{"type": "object", "title": txt, "description": txt,
				"properties": sgen.M{"a": sgen.M{"type": "string", "description": txt, "minLength": 1}, "b": sgen.M{"type": "object", "description": txt, "title": txt, "properties": sgen.M{"c": sgen.M{"type": "integer", "description": txt}}}},
				"$defs":      sgen.M{"D": sgen.M{"type": "string", "enum": []any{"x", "y"}, "description": txt}}}
			pc := baseCase("c01-hostile-text", schema, nil, "text")
			pc.Cfg.ExtraImports = true
			pcs = append(pcs, pc)
			pc2 := baseCase("c01-hostile-text", schema, nil, "text-title-name")
			pc2.Cfg.StructNameFromTitle = true
			pc2.Cfg.RootType = ""
			pcs = append(pcs, pc2)
		}
		// (d) names that collide with the shadow type
		for _, rootName := range []string{"Plain", "Plain_0", "Raw"} {
			schema := sgen.M{"type": "object", "properties": sgen.M{"plain": sgen.M{"type": "object", "properties": sgen.M{"x": sgen.M{"type": "integer"}}, "required": []any{"x"}}, "raw": sgen.M{"type": "string", "minLength": 1}}, "required": []any{"raw"},
				"$defs": sgen.M{"Plain": sgen.M{"type": "object", "properties": sgen.M{"y": sgen.M{"type": "string"}}, "required": []any{"y"}}, "Plain_0": sgen.M{"type": "object", "properties": sgen.M{"z": sgen.M{"type": "string"}}, "required": []any{"z"}}}}
			pc := baseCase("c01-shadow-names", schema, nil, rootName)
			pc.Cfg.RootType = rootName
			pcs = append(pcs, pc)
		}
		// (d') property names whose Go name coincides with a name the emitted code or the generator itself uses: the
		// additional-properties field, the locals of the methods, imported packages, predeclared identifiers — as an
		// ordinary member next to a required key / a default / a constraint / the additionalProperties keyword
		for _, pn := range []string{"additionalProperties", "additional_properties", "AdditionalProperties", "plain", "raw", "value", "err", "j", "ok", "st", "i",
			"json", "fmt", "reflect", "strings", "yaml", "errors", "regexp", "math", "time", "types", "mapstructure",
			"type", "func", "string", "int", "error", "nil", "true", "len", "map", "range", "interface", "struct", "any", "bool", "float64"} {
			member := func() sgen.M { return sgen.M{"type": "boolean"} }
			variants := map[string]sgen.M{
				"required-sibling":   {"type": "object", "properties": sgen.M{pn: member(), "k": sgen.M{"type": "string"}}, "required": []any{"k"}},
				"required-itself":    {"type": "object", "properties": sgen.M{pn: member()}, "required": []any{pn}},
				"with-default":       {"type": "object", "properties": sgen.M{pn: sgen.M{"type": "boolean", "default": true}}},
				"with-constraint":    {"type": "object", "properties": sgen.M{pn: sgen.M{"type": "string", "minLength": 1, "pattern": "^a"}, "n": sgen.M{"type": "number", "multipleOf": 0.5}}},
				"next-to-addl":       {"type": "object", "properties": sgen.M{pn: member(), "k": sgen.M{"type": "string"}}, "required": []any{"k"}, "additionalProperties": sgen.M{"type": "string"}},
				"in-a-definition":    {"type": "object", "$defs": sgen.M{"D": sgen.M{"type": "object", "properties": sgen.M{pn: member()}, "required": []any{pn}}}, "properties": sgen.M{"d": sgen.M{"$ref": "#/$defs/D"}}},
				"as-definition-name": {"type": "object", "$defs": sgen.M{pn: sgen.M{"type": "object", "properties": sgen.M{"x": sgen.M{"type": "integer"}}, "required": []any{"x"}}}, "properties": sgen.M{"d": sgen.M{"$ref": "#/$defs/" + pn}}},
			}
			for _, vn := range core.SortedKeys(variants) {
				for _, extra := range []bool{false, true} {
					pc := baseCase("c01-internal-names", variants[vn], nil, pn, vn)
					pc.Cfg.ExtraImports = extra
					pcs = append(pcs, pc)
				}
			}
		}
		// (h) three colliding definition names with a reference from one into another (name bookkeeping while a type
		// is in progress): the package must compile, except where the model predicts the redeclaration (K30 / K21)
		for _, pc := range collisionThroughRefsCases("c01-collisions-through-refs") {
			pc.Docs = nil
			pcs = append(pcs, pc)
		}
		// (g) every constraint keyword ALONE in a file (the imports a validator needs must come with that validator, not
		// with a neighbour): one property with exactly one keyword, optional / required / definition / array item,
		// with and without --extra-imports, --only-models, --min-sized-ints
		lone := map[string]sgen.M{
			"minimum": {"type": "integer", "minimum": 1}, "maximum": {"type": "integer", "maximum": 9}, "exclusiveMinimum": {"type": "number", "exclusiveMinimum": 0},
			"exclusiveMaximum": {"type": "number", "exclusiveMaximum": 10}, "exclusiveMinimum-int": {"type": "integer", "exclusiveMinimum": 0}, "exclusiveMaximum-int": {"type": "integer", "exclusiveMaximum": 10},
			"minimum+xbool": {"type": "integer", "minimum": 1, "exclusiveMinimum": true}, "maximum+xbool": {"type": "number", "maximum": 1, "exclusiveMaximum": true},
			"multipleOf-int": {"type": "integer", "multipleOf": 3}, "multipleOf-num": {"type": "number", "multipleOf": 0.5},
			"minLength": {"type": "string", "minLength": 1}, "maxLength": {"type": "string", "maxLength": 5}, "pattern": {"type": "string", "pattern": "^a"},
			"minItems": {"type": "array", "items": sgen.M{"type": "string"}, "minItems": 1}, "maxItems": {"type": "array", "items": sgen.M{"type": "integer"}, "maxItems": 3},
			"enum": {"type": "string", "enum": []any{"a", "b"}}, "enum-mixed": {"enum": []any{1, "a"}}, "default": {"type": "integer", "default": 5}, "nullable": {"type": []any{"string", "null"}},
			"null-type": {"type": "null"}, "format-date": {"type": "string", "format": "date"}, "format-ipv4": {"type": "string", "format": "ipv4"}, "additionalProperties": {"type": "object", "properties": sgen.M{"a": sgen.M{"type": "string"}}, "additionalProperties": sgen.M{"type": "integer"}},
		}
		for _, kn := range core.SortedKeys(lone) {
			for _, pos := range []string{"optional", "required", "definition", "item"} {
				var schema sgen.M
				p := sgen.DeepCopy(lone[kn]).(sgen.M)
				switch pos {
				case "optional":
					schema = sgen.M{"type": "object", "properties": sgen.M{"v": p}}
				case "required":
					schema = sgen.M{"type": "object", "properties": sgen.M{"v": p}, "required": []any{"v"}}
				case "definition":
					schema = sgen.M{"type": "object", "properties": sgen.M{"v": sgen.M{"$ref": "#/$defs/D"}}, "$defs": sgen.M{"D": p}}
				case "item":
					schema = sgen.M{"type": "object", "properties": sgen.M{"v": sgen.M{"type": "array", "items": p}}}
				}
				for oi, opt := range []string{"plain", "extra-imports", "only-models", "min-sized-ints"} {
					if !c.Thorough() && oi != 0 && (len(pcs)+oi)%3 != 0 {
						continue
					}
					pc := baseCase("c01-lone-keyword", schema, nil, kn, pos, opt)
					pc.Cfg.ExtraImports = opt == "extra-imports"
					pc.Cfg.OnlyModels = opt == "only-models"
					pc.Cfg.MinSizedInts = opt == "min-sized-ints"
					pcs = append(pcs, pc)
				}
			}
		}
		// (f) non-ASCII names whose runes satisfy the table hypotheses of C14.ident_valid (the model's generator covers
		// ASCII names only: these are judged by the oracle alone): combining marks after letters, Indic vowel signs, CJK,
		// precomposed letters, Greek, Cyrillic — as property names, definition names, enum members and titles
		uniNames := []string{"cafe\u0301", "cre\u0300me br\u00fble\u0301e", "\u0928\u093e\u092e", "\u092a\u094d\u0930\u0915\u093e\u0930", "\u65e5\u672c\u8a9e", "na\u00efve", "\u03b1\u03b2\u03b3", "\u043f\u0440\u0438\u0432\u0435\u0442", "x\u0301y\u0308z", "a\u200db"}
		for _, nm := range uniNames {
			ok := true
			for _, r := range nm {
				if !tableOK(r) {
					ok = false
				}
			}
			if !ok {
				continue
			}
			schema := sgen.M{"type": "object", "title": nm + " menu", "properties": sgen.M{nm: sgen.M{"type": "string", "minLength": 1}, "k": sgen.M{"$ref": "#/$defs/" + nm}, "e": sgen.M{"type": "string", "enum": []any{nm, "plain"}}},
				"$defs": sgen.M{nm: sgen.M{"type": "object", "properties": sgen.M{"v": sgen.M{"type": "integer"}}}}}
			for _, fromTitle := range []bool{false, true} {
				pc := baseCase("c01-unicode-names", schema, nil, nm, fmt.Sprint(fromTitle))
				pc.Cfg.StructNameFromTitle = fromTitle
				if fromTitle {
					pc.Cfg.RootType = ""
				}
				pcs = append(pcs, pc)
			}
		}
		// (e) distinct but structurally equal declarations (Package.AddDecl keeps one): a string enum that lists a
		// member twice; two property paths with the same scope name, each an anyOf / allOf over the same $refs
		for _, pos := range []string{"property", "definition", "items"} {
			en := sgen.M{"type": "string", "enum": []any{"pending", "shipped", "delivered", "pending"}}
			var schema sgen.M
			switch pos {
			case "property":
				schema = sgen.M{"type": "object", "properties": sgen.M{"status": en}}
			case "definition":
				schema = sgen.M{"type": "object", "properties": sgen.M{"status": sgen.M{"$ref": "#/$defs/Status"}}, "$defs": sgen.M{"Status": en}}
			case "items":
				schema = sgen.M{"type": "object", "properties": sgen.M{"status": sgen.M{"type": "array", "items": en}}}
			}
			for _, yaml := range []bool{false, true} {
				pc := baseCase("c01-equal-declarations", schema, nil, "repeated-enum-member", pos)
				pc.Cfg.ExtraImports = yaml
				pcs = append(pcs, pc)
			}
		}
		for _, kw := range []string{"anyOf", "allOf"} {
			a := sgen.M{"type": "object", "properties": sgen.M{"a": sgen.M{"type": "integer"}}, "required": []any{"a"}}
			b := sgen.M{"type": "object", "properties": sgen.M{"b": sgen.M{"type": "string"}}, "required": []any{"b"}}
			comp := func() sgen.M { return sgen.M{kw: []any{sgen.M{"$ref": "#/$defs/A"}, sgen.M{"$ref": "#/$defs/B"}}} }
			schema := sgen.M{"type": "object", "properties": sgen.M{"x": sgen.M{"$ref": "#/$defs/FooBar"}, "y": sgen.M{"$ref": "#/$defs/Foo"}},
				"$defs": sgen.M{"A": a, "B": b,
					"FooBar": sgen.M{"type": "object", "properties": sgen.M{"baz": comp()}},
					"Foo":    sgen.M{"type": "object", "properties": sgen.M{"barBaz": comp()}}}}
			pcs = append(pcs, baseCase("c01-equal-declarations", schema, nil, "same-scope-"+kw))
		}
		// a format-typed string as the ONLY use of its package, in every kind of declared position: items of a
		// definition's array, of the root array, of a map value, of a nested array; a map value; a definition of its own;
		// a property of a definition (control) — the package must be imported wherever the type name is written
		for _, f := range []string{"date-time", "date", "time", "ipv4", "ipv6"} {
			str := func() sgen.M { return sgen.M{"type": "string", "format": f} }
			arr := func(it sgen.M) sgen.M { return sgen.M{"type": "array", "items": it} }
			shapes := map[string]sgen.M{
				"definition-array-items":  {"type": "object", "$defs": sgen.M{"holidays": arr(str())}, "properties": sgen.M{"h": sgen.M{"$ref": "#/$defs/holidays"}}},
				"root-array-items":        arr(str()),
				"map-value-array-items":   {"type": "object", "additionalProperties": arr(str())},
				"nested-array-items":      {"type": "object", "$defs": sgen.M{"grid": arr(arr(str()))}, "properties": sgen.M{"g": sgen.M{"$ref": "#/$defs/grid"}}},
				"map-value":               {"type": "object", "additionalProperties": str()},
				"definition-map-value":    {"type": "object", "$defs": sgen.M{"m": sgen.M{"type": "object", "additionalProperties": str()}}, "properties": sgen.M{"x": sgen.M{"$ref": "#/$defs/m"}}},
				"property-array-items":    {"type": "object", "properties": sgen.M{"a": arr(str())}},
				"definition-property":     {"type": "object", "$defs": sgen.M{"d": sgen.M{"type": "object", "properties": sgen.M{"t": str()}}}, "properties": sgen.M{"x": sgen.M{"$ref": "#/$defs/d"}}},
				"array-of-objects-member": {"type": "object", "properties": sgen.M{"a": arr(sgen.M{"type": "object", "properties": sgen.M{"t": str()}})}},
				"allOf-branch-member":     {"type": "object", "properties": sgen.M{"p": sgen.M{"allOf": []any{sgen.M{"type": "object", "properties": sgen.M{"t": str()}}, sgen.M{"type": "object", "properties": sgen.M{"n": sgen.M{"type": "integer"}}}}}}},
			}
			for _, name := range core.SortedKeys(shapes) {
				for _, om := range []bool{false, true} {
					pc := baseCase("c01-format-only-use", shapes[name], nil, f, name)
					pc.Cfg.OnlyModels = om
					pcs = append(pcs, pc)
				}
			}
		}
		res := runCases(c, pcs)
		fails := 0
		listed := map[string]bool{}
		for _, k := range c.KnownFor() {
			listed[k.ID] = true
		}
		for _, r := range res {
			if r.Real.ErrKind != "" {
				c.Count("outcome", "gen-error:"+r.Real.ErrKind)
				continue // the generator refused the schema: not "a schema the generator accepts"
			}
			outcome := "compiles"
			bad := ""
			switch {
			case r.Real.Panic != "" || r.Real.Timeout:
				outcome, bad = "panic", "the generator panics or hangs: "+clip(r.Real.Panic, 200)
			case r.Real.Src == nil:
				outcome = "no-output"
			case r.Real.Unformatted:
				outcome, bad = "unformatted", "the run reports success but the code could not be formatted (unparsable text is handed to the user)"
			case r.Real.ParseErr != "":
				outcome, bad = "unparsable", "the emitted file does not parse: "+clip(r.Real.ParseErr, 200)
			case !r.Real.GofmtStable:
				outcome, bad = "not-gofmt-stable", "the emitted file is not a fixed point of gofmt"
			case r.CompileErr != "":
				outcome, bad = "compile-fail", "the emitted file does not compile: "+clip(r.CompileErr, 250)
			}
			c.Eval(fmt.Sprintf("%s|%v%v%v%v|%s|%s", r.Case.Stream, r.Case.Cfg.ExtraImports, r.Case.Cfg.OnlyModels, r.Case.Cfg.MinSizedInts, len(r.Case.Cfg.Tags), outcome, classOfDoc(string(r.SchemaJSON))))
			c.Count("outcome", outcome)
			if bad != "" {
				// tolerated only as a listed known-finding class that the model predicted
				known := false
				if !r.Unsupported {
					for _, is := range r.ModelIssues {
						if id, ok := issueToFinding[is]; ok && listed[id] {
							known = true
							c.Count("known-class", id)
						}
					}
				}
				if r.Unsupported {
					for _, ce := range compileErrToFinding {
						if strings.Contains(r.CompileErr, ce.pat) && listed[ce.id] {
							known = true
							c.Count("known-class", ce.id+" (by message; outside the model)")
						}
					}
				}
				if !known {
					fails++
					if fails <= 3 {
						c.Fail("oracle", bad, replayOf(r, -1, M{"model_issues": r.ModelIssues}), false)
					}
				}
			}
			if len(c.Samples) < 6 && r.Case.Stream != "c01-random" {
				c.Sample(M{"stream": r.Case.Stream, "schema": clip(string(r.SchemaJSON), 250), "cfg": r.Case.Cfg, "outcome": outcome})
			}
		}
		// generated files that refer to types of hand-written packages (several of them, with similar import paths) import
		// what they use and build against stubs of those packages (the command line is the only way to state such mappings)
		if bin := buildCLI(c); bin != "" {
			tmpx, _ := os.MkdirTemp("", "gjsc01x")
			externalPackages(c, bin, tmpx, &fails)
			rerunIntoExistingFile(c, bin, tmpx, &fails)
			_ = os.RemoveAll(tmpx)
		}
		breaks(c, res, map[string]bool{"gen": true, "summary": true, "imports": true, "compile": true}, fails > 0)
		c.FactsVerdict(fails > 0)
		knownMultiFileFindings(c)
		knownProgramFindings(c)
	})
}

// rerunIntoExistingFile: the tool is run a second time with the same -o / --schema-output path after the schema changed
// (grew, shrank, stayed the same, changed without changing size): what is on disk afterwards is exactly what a run into
// an empty directory writes — a valid Go file, nothing left over from the earlier run.
func rerunIntoExistingFile(c *engine.Ctx, bin, tmp string, fails *int) {
	big := M{"$id": "urn:s", "type": "object", "required": []any{"name", "items"}, "properties": M{"name": M{"type": "string", "minLength": 2}, "items": M{"type": "array", "items": M{"type": "object", "properties": M{"sku": M{"type": "string"}, "qty": M{"type": "integer", "minimum": 1}}, "required": []any{"sku"}}, "minItems": 1},
		"status": M{"type": "string", "enum": []any{"new", "paid", "shipped"}}, "note": M{"type": "string", "default": "none"}}}
	small := M{"$id": "urn:s", "type": "object", "properties": M{"name": M{"type": "string"}}}
	same := M{"$id": "urn:s", "type": "object", "properties": M{"nama": M{"type": "string"}}}
	for si, seq := range [][]M{{big, small}, {small, big}, {big, big}, {small, same}, {big, small, big}, {big, small, small}} {
		for _, viaMapping := range []bool{false, true} {
			wd := filepath.Join(tmp, fmt.Sprintf("rerun%d-%v", si, viaMapping))
			args := []string{"-p", "model", "-o", "model/order.go", "s.json"}
			if viaMapping {
				args = []string{"-p", "model", "--schema-output", "urn:s=model/order.go", "--schema-package", "urn:s=example.com/m/model", "s.json"}
			}
			var last cliResult
			for _, sch := range seq {
				_ = os.MkdirAll(wd, 0o755)
				_ = os.WriteFile(filepath.Join(wd, "s.json"), core.MustJSON(sch), 0o644)
				last = runCLI(bin, wd, "", args...)
			}
			fresh := filepath.Join(tmp, fmt.Sprintf("rerun%d-%v-fresh", si, viaMapping))
			_ = os.MkdirAll(fresh, 0o755)
			_ = os.WriteFile(filepath.Join(fresh, "s.json"), core.MustJSON(seq[len(seq)-1]), 0o644)
			want := runCLI(bin, fresh, "", args...)
			c.Programs++
			ok := last.Exit == 0 && want.Exit == 0 && last.Files["model/order.go"] == want.Files["model/order.go"] && want.Files["model/order.go"] != ""
			c.Eval(fmt.Sprintf("rerun-into-existing-file|%d|%v|ok=%v", si, viaMapping, ok))
			if !ok {
				*fails++
				if *fails <= 3 {
					_, perr := parser.ParseFile(token.NewFileSet(), "order.go", last.Files["model/order.go"], 0)
					c.Fail("oracle", fmt.Sprintf("after %d runs into the same output file its content (%d bytes, parse error: %v) is not what a run into an empty directory writes (%d bytes)", len(seq), len(last.Files["model/order.go"]), perr, len(want.Files["model/order.go"])),
						M{"kind": "cli-multi", "flags": args, "schemas": seq, "on_disk": clip(last.Files["model/order.go"], 3000), "fresh": clip(want.Files["model/order.go"], 3000)}, false)
				}
			}
		}
	}
}

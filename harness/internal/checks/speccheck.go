package checks

import (
	"bufio"
	"bytes"
	"encoding/json"
	"fmt"
	"os/exec"
	"path/filepath"
	"strings"

	"verifharness/internal/core"
	"verifharness/internal/engine"
)

// crossCheckSpec (thorough tier): the reference semantics the oracles use, GJS.Spec.valid, is part of the
// trusted base.  Its verdicts on the cases of this run are compared with the independent Python `jsonschema`
// package (python3-vt, offline).  Out of the comparison: schemas with `format` (not asserted by jsonschema),
// non-dyadic float multipleOf (jsonschema computes in floating point, Spec in exact rationals), and documents
// with numbers beyond 2^53.  A disagreement is a defect of the MACHINERY (or of jsonschema), reported as a
// broken obligation without failing input.
func crossCheckSpec(c *engine.Ctx, results []*core.PResult) {
	if !c.Thorough() {
		return
	}
	py, err := exec.LookPath("python3-vt")
	if err != nil {
		c.Count("spec-cross-check", "python3-vt not available (skipped)")
		return
	}
	tool := filepath.Join(core.HarnessDir(), "tools", "speccheck.py")
	type item struct {
		r    *core.PResult
		docs []int
	}
	var items []item
	var in bytes.Buffer
	for _, r := range results {
		if len(items) >= 2500 || r.ModelRuns == nil || r.Case.DecodeType != "" || len(r.Case.Files) > 0 {
			continue
		}
		sj := string(r.SchemaJSON)
		if strings.Contains(sj, `"format"`) || nonDyadicMultiple(sj) || strings.Contains(sj, `"goJSONSchema"`) {
			c.Count("spec-cross-check", "schema out of the comparison (format / non-dyadic multipleOf / extension)")
			continue
		}
		var docs []json.RawMessage
		var idx []int
		for i, d := range r.DocJSON {
			if i >= len(r.ModelRuns) || (r.ModelRuns[i].Spec != "valid" && r.ModelRuns[i].Spec != "invalid") || hugeNumber(d) {
				continue
			}
			docs = append(docs, json.RawMessage(d))
			idx = append(idx, i)
		}
		if len(docs) == 0 {
			continue
		}
		line, _ := json.Marshal(map[string]any{"id": len(items), "schema": json.RawMessage(r.SchemaJSON), "docs": docs})
		in.Write(line)
		in.WriteByte('\n')
		items = append(items, item{r, idx})
	}
	if len(items) == 0 {
		return
	}
	cmd := exec.Command(py, tool)
	cmd.Stdin = &in
	var stderr bytes.Buffer
	cmd.Stderr = &stderr
	out, err := cmd.Output()
	if err != nil {
		c.Note("spec cross-check: python tool failed: %v %s", err, clip(stderr.String(), 300))
		c.Count("spec-cross-check", "tool failed (skipped)")
		return
	}
	dis := 0
	sc := bufio.NewScanner(bytes.NewReader(out))
	sc.Buffer(make([]byte, 1<<24), 1<<24)
	for sc.Scan() {
		var ans struct {
			ID       int    `json:"id"`
			Verdicts string `json:"verdicts"`
		}
		if json.Unmarshal(sc.Bytes(), &ans) != nil || ans.ID >= len(items) {
			continue
		}
		it := items[ans.ID]
		for k, di := range it.docs {
			if k >= len(ans.Verdicts) {
				break
			}
			want := map[string]byte{"valid": '1', "invalid": '0'}[it.r.ModelRuns[di].Spec]
			switch ans.Verdicts[k] {
			case '?':
				c.Count("spec-cross-check", "jsonschema raised (skipped)")
			case 'm':
				c.Count("spec-cross-check", "schema mixes boolean and numeric exclusive bounds (no single dialect; skipped)")
			case want:
				c.Count("spec-cross-check", "agree")
			default:
				c.Count("spec-cross-check", "DISAGREE")
				dis++
				if dis <= 3 {
					c.Fail("correspondence", fmt.Sprintf("the reference semantics Spec.valid says %s, python jsonschema says the opposite", it.r.ModelRuns[di].Spec),
						M{"broken": "cross-check of GJS.Spec.valid against python jsonschema", "schema": string(it.r.SchemaJSON), "doc": it.r.DocJSON[di], "spec": it.r.ModelRuns[di].Spec}, true)
				}
			}
		}
	}
}

func nonDyadicMultiple(schemaJSON string) bool {
	i := 0
	for {
		j := strings.Index(schemaJSON[i:], `"multipleOf":`)
		if j < 0 {
			return false
		}
		i += j + len(`"multipleOf":`)
		end := i
		for end < len(schemaJSON) && strings.ContainsRune("0123456789.-+eE", rune(schemaJSON[end])) {
			end++
		}
		var f float64
		fmt.Sscan(schemaJSON[i:end], &f)
		x := f
		ok := false
		for k := 0; k < 20; k++ {
			if x == float64(int64(x)) {
				ok = true
				break
			}
			x *= 2
		}
		if !ok {
			return true
		}
	}
}

func hugeNumber(doc string) bool {
	digits := 0
	for _, ch := range doc {
		if ch >= '0' && ch <= '9' {
			digits++
			if digits > 15 {
				return true
			}
		} else {
			digits = 0
		}
	}
	return false
}

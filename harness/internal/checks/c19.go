package checks

import (
	"fmt"
	"strings"

	"verifharness/internal/core"
	"verifharness/internal/engine"
	"verifharness/internal/sgen"
)

var malformed = []string{
	``, ` `, `{`, `}`, `{"a":`, `{"a":1,}`, `[1,2`, `nul`, `tru`, `{"a" 1}`, `{"a":1}}`, `"unterminated`, `{"a":01}`, `{'a':1}`,
	`[`, `{"a":1e}`, `-`, `{"a":"\u12"}`, "{\"a\":1}\x00", `{"a":1}{"b":2}`, `0x10`, `{"a":+1}`,
}

var wrongShapes = []string{
	`null`, `1`, `-1.5`, `"s"`, `true`, `false`, `[]`, `[1]`, `[null]`, `{}`, `{"":null}`, `[[[[[[[[[[[[]]]]]]]]]]]]`,
	`{"a":{"a":{"a":{"a":{"a":{"a":{}}}}}}}`, `[{}]`, `{"a":[{"a":[{"a":[]}]}]}`, `1e400`, `123456789012345678901234567890`,
	`"` + strings.Repeat("x", 5000) + `"`,
}

func deepNest(n int, open, close string) string {
	return strings.Repeat(open, n) + strings.Repeat(close, n)
}

func init() {
	register("C19", func(c *engine.Ctx) {
		c.Rule = "every root type of random programs (all features; half of them with --extra-imports so that the YAML methods exist too) x {valid, single-fault and mutated documents, wrong shapes (null, scalars, arrays, deep nesting, huge numbers, long strings), malformed byte strings} x a prior destination value obtained by decoding a valid document first; plus generated methods on types that are not the root struct (map-typed anyOf branches, named constrained strings, enums, a nested struct), decoded into directly with documents that fail late (an early map entry is fine, a later one is not); plus format-typed strings (time, date, date-time, ipv4, ipv6): every prefix, single-character deletion and substitution of valid texts, at a property and inside a nested required object; plus 16 validator kinds (each length / bound / multiple / items keyword alone, equal minimum and maximum, combined, enum, nested required object) on optional and on nullable fields with the field absent, null, every field null, the document null or {} — at the root, in a nested object and in array elements. Each call runs under recover(); after a failed call the destination must re-marshal to exactly what it was. Distinct = distinct (wire, outcome, document class)."
		c.Proofs([]string{"GJS.Props.C19"}, []string{
			"GJS.Props.C19.error_keeps_destination", "GJS.Props.C19.method_all_or_nothing", "GJS.Props.C19.result_independent_of_destination",
			"GJS.Props.C19.numeric_nil_guard", "GJS.Props.C19.string_nil_guard", "GJS.Props.C19.array_nil_guard", "GJS.Props.C19.null_nil_guard",
			"GJS.Props.C19.required_nil_raw", "GJS.Props.C19.scalar_refused_by_raw_decode", "GJS.Props.C19.KF_addl_null_panics",
		})
		factsOf(c, "receiverWrites")
		var pcs []*core.PCase
		ao := sgen.AllOpts()
		for i := 0; i < c.N(200, 3000); i++ {
			g := sgen.New(c.R, ao)
			root := g.Root("")
			base := g.FullSample(root, 0)
			docs := append([]any{base}, g.Docs(root, 8)...)
			pc := baseCase("c19-random", root, docs)
			pc.Cfg.ExtraImports = i%2 == 0
			prior := string(core.MustJSON(base))
			wires := []string{"J"}
			if pc.Cfg.ExtraImports {
				wires = append(wires, "Y")
			}
			for _, w := range wires {
				for _, d := range docs {
					pc.Extra = append(pc.Extra, core.ExtraDoc{Doc: string(core.MustJSON(d)), Prior: prior, Wire: w})
				}
				for _, d := range wrongShapes {
					pc.Extra = append(pc.Extra, core.ExtraDoc{Doc: d, Prior: prior, Wire: w}, core.ExtraDoc{Doc: d, Wire: w})
				}
				for _, d := range malformed {
					pc.Extra = append(pc.Extra, core.ExtraDoc{Doc: d, Prior: prior, Wire: w})
				}
				if i%10 == 0 {
					pc.Extra = append(pc.Extra, core.ExtraDoc{Doc: deepNest(3000, "[", "]"), Prior: prior, Wire: w},
						core.ExtraDoc{Doc: deepNest(3000, `{"a":`, "}"), Prior: prior, Wire: w})
				}
			}
			pcs = append(pcs, pc)
		}
		// generated methods on types that are NOT the root struct: map-typed anyOf branches (the only maps that get a
		// method), named constrained scalars, enums, nested structs — decoded into directly, with a prior destination,
		// documents that are valid, wrong-shaped, malformed, and that FAIL LATE (an early entry is fine, a later one is
		// not): a failed call must leave the destination as it was
		type subType struct {
			schema M
			ty     string
			prior  string
			docs   []string
		}
		endpoint := M{"type": "object", "properties": M{"host": M{"type": "string", "minLength": 1}, "port": M{"type": "integer", "minimum": 1}}, "required": []any{"host"}}
		routing := M{"type": "object", "properties": M{"up": M{"anyOf": []any{
			M{"type": "object", "additionalProperties": M{"$ref": "#/$defs/Endpoint"}},
			M{"type": "object", "additionalProperties": M{"type": "string"}},
			M{"type": "object", "additionalProperties": M{"type": "integer", "minimum": 1}},
		}}}, "$defs": M{"Endpoint": endpoint}}
		scalars := M{"type": "object", "properties": M{"n": M{"$ref": "#/$defs/Name"}, "k": M{"$ref": "#/$defs/Kind"}, "m": M{"$ref": "#/$defs/Mixed"}, "e": M{"$ref": "#/$defs/Endpoint"}},
			"$defs": M{"Name": M{"type": "string", "minLength": 2, "maxLength": 5}, "Kind": M{"type": "string", "enum": []any{"a", "b"}}, "Mixed": M{"type": "string", "enum": []any{"x"}}, "Endpoint": endpoint}}
		subs := []subType{
			{routing, "RootUp_0", `{"keep":{"host":"k"}}`, []string{`{"a":{"host":"a.example"}}`, `{"a":{"host":"a.example"},"b":{"port":8080}}`, `{"a":{"host":"a"},"b":{"host":""}}`, `{"a":{"host":"a"},"b":5}`, `{"a":{"host":"a"},"b":{"host":"b","port":0}}`}},
			{routing, "RootUp_1", `{"keep":"v"}`, []string{`{"a":"x"}`, `{"a":"http://a.example","b":5}`, `{"a":"x","b":{}}`, `{"a":"x","b":[1]}`}},
			{routing, "RootUp_2", `{"keep":7}`, []string{`{"a":1}`, `{"a":1,"b":"s"}`, `{"a":1,"b":1.5}`, `{"a":2,"b":0}`}},
			{scalars, "Name", `"keep"`, []string{`"abc"`, `"a"`, `"abcdefgh"`, `5`, `{}`}},
			{scalars, "Kind", `"a"`, []string{`"b"`, `"c"`, `7`, `[]`}},
			{scalars, "Endpoint", `{"host":"keep","port":9}`, []string{`{"host":"h"}`, `{"port":1}`, `{"host":"h","port":0}`, `{"host":"","port":2}`, `{"host":"h","port":"x"}`}},
		}
		// format-typed strings (the runtime helper types of pkg/types and netip / time): every prefix, every
		// single-character deletion and a set of single-character substitutions of a valid text per format
		fmtValid := map[string][]string{"time": {"23:59:60", "09:00:00"}, "date": {"2024-02-29"}, "date-time": {"2024-12-24T09:00:00Z", "2024-12-24T09:00:00+01:00"}, "ipv4": {"192.168.1.1"}, "ipv6": {"2001:db8::1"}}
		for _, fname := range core.SortedKeys(fmtValid) {
			seen := map[string]bool{}
			var docs []string
			add := func(t string) {
				if !seen[t] {
					seen[t] = true
					docs = append(docs, string(core.MustJSON(M{"n": 1, "t": t})), string(core.MustJSON(M{"n": 1, "o": M{"t": t}})))
				}
			}
			for _, base := range fmtValid[fname] {
				for i := 0; i <= len(base); i++ {
					add(base[:i])
				}
				for i := 0; i < len(base); i++ {
					add(base[:i] + base[i+1:])
					for _, ch := range []string{"6", "0", ":", "Z", "+", "-", ".", "x", " "} {
						add(base[:i] + ch + base[i+1:])
					}
				}
				add(base + "Z")
				add(base + "60")
				add(" " + base)
				// texts that contain quotation marks (as CONTENT of the string): alone, around and inside the valid text
				for _, q := range []string{`"`, `'`, "\\", "`"} {
					add(q)
					add(q + q)
					add(q + base)
					add(base + q)
					add(q + base + q)
					add(base[:len(base)/2] + q + base[len(base)/2:])
				}
			}
			fs := M{"type": "object", "properties": M{"t": M{"type": "string", "format": fname}, "n": M{"type": "integer", "minimum": 1}, "o": M{"type": "object", "properties": M{"t": M{"type": "string", "format": fname}}, "required": []any{"t"}}}, "required": []any{"n"}}
			subs = append(subs, subType{fs, "Root", `{"n":1}`, docs})
		}
		// every validator kind on OPTIONAL and NULLABLE (pointer) fields: absent, null, the whole document null or {} —
		// the emitted checks must be guarded, whatever the combination of keywords
		guardKinds := map[string]M{
			"str-min": {"type": "string", "minLength": 2}, "str-max": {"type": "string", "maxLength": 3}, "str-min-eq-max": {"type": "string", "minLength": 2, "maxLength": 2},
			"str-min-max": {"type": "string", "minLength": 1, "maxLength": 4}, "str-pattern": {"type": "string", "pattern": "^a"}, "str-all": {"type": "string", "minLength": 3, "maxLength": 3, "pattern": "^abc$"},
			"int-min": {"type": "integer", "minimum": 1}, "int-min-eq-max": {"type": "integer", "minimum": 2, "maximum": 2}, "int-xmin": {"type": "integer", "exclusiveMinimum": 0},
			"int-mult": {"type": "integer", "multipleOf": 3}, "num-all": {"type": "number", "minimum": 0.5, "maximum": 9.5, "multipleOf": 0.5},
			"arr-min": {"type": "array", "items": M{"type": "integer"}, "minItems": 1}, "arr-min-eq-max": {"type": "array", "items": M{"type": "string"}, "minItems": 2, "maxItems": 2},
			"arr-nested": {"type": "array", "items": M{"type": "array", "items": M{"type": "integer"}}, "minItems": 1, "maxItems": 1},
			"enum-str":   {"type": "string", "enum": []any{"a", "b"}},
			"obj-req":    {"type": "object", "properties": M{"k": M{"type": "string", "minLength": 1}}, "required": []any{"k"}},
		}
		{
			props := M{}
			nprops := M{}
			for _, kn := range core.SortedKeys(guardKinds) {
				props[kn] = sgen.DeepCopy(guardKinds[kn])
				np := sgen.DeepCopy(guardKinds[kn]).(M)
				if t, ok := np["type"].(string); ok && t != "object" {
					np["type"] = []any{t, "null"}
				}
				nprops[kn] = np
			}
			nullDoc := M{}
			for kn := range nprops {
				nullDoc[kn] = nil
			}
			docs := []string{`{}`, `null`, string(core.MustJSON(nullDoc))}
			for _, kn := range core.SortedKeys(guardKinds) {
				docs = append(docs, string(core.MustJSON(M{kn: nil})))
			}
			subs = append(subs,
				subType{M{"type": "object", "properties": props}, "Root", `{}`, docs},
				subType{M{"type": "object", "properties": nprops}, "Root", `{}`, docs},
				subType{M{"type": "object", "properties": M{"o": M{"type": "object", "properties": props}, "a": M{"type": "array", "items": M{"type": "object", "properties": nprops}}}}, "Root", `{}`,
					[]string{`{}`, `{"o":{}}`, `{"o":null}`, `{"a":[{}]}`, `{"a":[null]}`, `{"a":[{},{}]}`, `{"a":null}`}})
		}
		// arrays nested 1..4 deep with limits on the outermost level (the emitted loops subscript level by level), with
		// JAGGED documents: inner arrays longer and shorter than the outer ones, empty ones, null in between
		for depth := 1; depth <= 4; depth++ {
			node := M{"type": "number"}
			for d := 0; d < depth; d++ {
				node = M{"type": "array", "items": node}
			}
			node["minItems"], node["maxItems"] = 1, 3
			for _, req := range []bool{true, false} {
				sch := M{"type": "object", "properties": M{"c": node}}
				if req {
					sch["required"] = []any{"c"}
				}
				wrap := func(inner string) string {
					s := inner
					for d := 3; d < depth; d++ {
						s = "[" + s + "]"
					}
					return `{"c":` + s + `}`
				}
				var docs []string
				switch depth {
				case 1:
					docs = []string{`{"c":[1,2]}`, `{"c":[]}`, `{"c":[1,2,3,4]}`, `{"c":null}`, `{}`}
				case 2:
					docs = []string{`{"c":[[1,2,3,4]]}`, `{"c":[[1],[1,2],[1,2,3]]}`, `{"c":[[]]}`, `{"c":[[1],null]}`, `{"c":[[1],[],[2]]}`, `{"c":[]}`}
				default:
					docs = []string{wrap(`[[[0,0],[1,0],[1,1],[0,0]]]`), wrap(`[[[0,0],[]]]`), wrap(`[[[1]],[[1],[2]],[[1],[2],[3]]]`), wrap(`[[[1,2,3,4,5]]]`), wrap(`[[],[[1]]]`),
						wrap(`[[[1]],null]`), wrap(`[[null,[1]]]`), wrap(`[]`), wrap(`[[[1],[2],[3],[4]],[[1]]]`)}
				}
				subs = append(subs, subType{sch, "Root", `{}`, docs})
			}
		}
		// property names that are special to a struct tag or to one of the two decoders' key handling, as a required
		// and as an optional key, with documents that contain the key (valid, with a fault elsewhere, wrong-typed)
		for _, kn := range []string{"-", "--", "-x", "x-", "a-b", "_", "a.b", "a b", "a:b", "#", "?", "omitempty", "inline", "flow", "string", "ω"} {
			for _, req := range []bool{true, false} {
				sch := M{"type": "object", "properties": M{kn: M{"type": "string"}, "limit": M{"type": "integer"}}}
				if req {
					sch["required"] = []any{kn}
				}
				subs = append(subs, subType{sch, "Root", `{"limit":1}`,
					[]string{string(core.MustJSON(M{kn: "name", "limit": 3})), string(core.MustJSON(M{kn: "name", "limit": "x"})), string(core.MustJSON(M{kn: []any{1}})), `{"limit":2}`, `{}`}})
			}
		}
		for _, st := range subs {
			for _, yamlToo := range []bool{false, true} {
				pc := baseCase("c19-sub-types", st.schema, nil, st.ty)
				pc.DecodeType = st.ty
				pc.Cfg.ExtraImports = yamlToo
				wires := []string{"J"}
				if yamlToo {
					wires = append(wires, "Y")
				}
				for _, w := range wires {
					for _, d := range st.docs {
						pc.Extra = append(pc.Extra, core.ExtraDoc{Doc: d, Prior: st.prior, Wire: w}, core.ExtraDoc{Doc: d, Wire: w})
					}
					for _, d := range wrongShapes {
						pc.Extra = append(pc.Extra, core.ExtraDoc{Doc: d, Prior: st.prior, Wire: w})
					}
					for _, d := range malformed {
						pc.Extra = append(pc.Extra, core.ExtraDoc{Doc: d, Prior: st.prior, Wire: w})
					}
				}
				pcs = append(pcs, pc)
			}
		}
		res := runCases(c, pcs)
		fails := 0
		for _, r := range res {
			if r.ExtraRuns == nil {
				if r.Case.Stream == "c19-sub-types" {
					fails++
					c.Fail("oracle", "sub-type program does not generate/compile or lacks the type "+r.Case.DecodeType+": "+r.Real.ErrMsg+r.CompileErr, replayOf(r, -1, nil), false)
				}
				continue
			}
			for i, rr := range r.ExtraRuns {
				e := r.Case.Extra[i]
				cls := "doc"
				switch {
				case contains(malformed, e.Doc):
					cls = "malformed"
				case contains(wrongShapes, e.Doc):
					cls = "wrong-shape"
				case len(e.Doc) > 2000:
					cls = "deep"
				}
				c.Eval(fmt.Sprintf("%s|%s|%s|prior=%v|%s", e.Wire, rr.Kind, cls, e.Prior != "", clip(e.Doc, 24)))
				c.Count("extra-outcomes", e.Wire+"/"+cls+"/"+rr.Kind)
				switch rr.Kind {
				case "panic":
					if isKnownPanic(r, e, rr.Msg) {
						c.Count("known-panic", "K13-addl-null")
						continue
					}
					fails++
					if fails <= 3 {
						c.Fail("panic", "a generated unmarshaler panics: "+clip(rr.Msg, 200), replayOf(r, -1, M{"doc_text": e.Doc, "prior": e.Prior, "wire": e.Wire}), false)
					}
				case "reject":
					// the statement is about the GENERATED methods: a root type without one is filled field by field
					// by encoding/json itself
					method := "UnmarshalJSON"
					if e.Wire == "Y" {
						method = "UnmarshalYAML"
					}
					if !strings.Contains(r.Real.Summary, "method "+r.RootName+"."+method) {
						c.Count("c19", "root-without-generated-method")
						continue
					}
					if e.Prior != "" && rr.Canon != rr.After {
						fails++
						if fails <= 3 {
							c.Fail("oracle", "a failed unmarshal modified the destination: before "+clip(rr.Canon, 200)+" after "+clip(rr.After, 200),
								replayOf(r, -1, M{"doc_text": e.Doc, "prior": e.Prior, "wire": e.Wire}), false)
						}
					}
				case "ok":
					if cls == "malformed" && e.Wire == "J" {
						fails++
						if fails <= 3 {
							c.Fail("oracle", "malformed JSON was accepted", replayOf(r, -1, M{"doc_text": e.Doc, "wire": e.Wire}), false)
						}
					}
				case "prior-rejected":
					c.Count("c19", "prior-rejected")
				}
			}
			if len(c.Samples) < 5 {
				c.Sample(M{"schema": clip(string(r.SchemaJSON), 300), "extra_docs": len(r.Case.Extra), "example": r.Case.Extra[len(r.Case.Extra)/2]})
			}
		}
		breaks(c, res, map[string]bool{"run-json": true, "run-yaml": true, "gen": true}, fails > 0)
		c.FactsVerdict(fails > 0)
		knownProgramFindings(c)
	})
}

func contains(xs []string, s string) bool {
	for _, x := range xs {
		if x == s {
			return true
		}
	}
	return false
}

// isKnownPanic: K13 — a type with typed additionalProperties receives null (directly, or as an array
// element / property value): mapstructure.Decode panics on the nil raw map (recognised by its message too).
func isKnownPanic(r *core.PResult, e core.ExtraDoc, msg string) bool {
	return strings.Contains(string(r.SchemaJSON), `"additionalProperties":{`) && strings.Contains(e.Doc, "null") &&
		strings.Contains(msg, "reflect.Set: value of type map[string]interface")
}

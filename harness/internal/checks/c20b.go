package checks

import (
	"fmt"
	"os"
	"path/filepath"
	"regexp"
	"strings"

	"verifharness/internal/core"
	"verifharness/internal/engine"
)

// partialMappings (C20, "the output file and Go package mapped to its $id (or the defaults)"): two schemas, a.json
// referring to b.json, every combination of WHICH of the three mapping flags each id has — none, only a package (the
// default package or another), only an output, only a root type, package and output — in both argument orders.  Where
// each schema's declarations must land is what the model says (`assembleMapping` as main.go assembles the flags,
// then `route` / `rootOverride`; theorems C16.package_without_output_is_external, rootType_alone_keeps_routing, C12.route_*):
// in exactly that file under that package clause, or in no file at all when the id has a package and no output.
func partialMappings(c *engine.Ctx, bin string, fails *int) {
	tmp, _ := os.MkdirTemp("", "gjsc20p")
	defer os.RemoveAll(tmp)
	const defPkg, defOut = "example.com/m/def", "out/def/def.go"
	type fset struct {
		name           string
		pkg, out, root string
	}
	setsFor := func(x string) []fset {
		return []fset{
			{"none", "", "", ""},
			{"package=default", defPkg, "", ""},
			{"package=other", "example.com/m/p" + x, "", ""},
			{"output", "", "out/def/" + x + ".go", ""},
			{"root", "", "", "Named" + strings.ToUpper(x)},
			{"package+output", "example.com/m/p" + x, "out/p" + x + "/" + x + ".go", ""},
			{"package=default+output", defPkg, "out/def/" + x + "2.go", "Named" + strings.ToUpper(x)},
		}
	}
	files := map[string]string{
		"schemas/a.json": string(core.MustJSON(M{"$id": "urn:a", "type": "object", "properties": M{"va": M{"type": "string"}, "toB": M{"$ref": "b.json"}}, "$defs": M{"DefA": M{"type": "object", "properties": M{"da": M{"type": "boolean"}}}}})),
		"schemas/b.json": string(core.MustJSON(M{"$id": "urn:b", "type": "object", "properties": M{"vb": M{"type": "integer"}}, "$defs": M{"DefB": M{"type": "object", "properties": M{"db": M{"type": "boolean"}}}}})),
	}
	type inv struct {
		sa, sb fset
		order  []string
	}
	var invs []inv
	for _, sa := range setsFor("a") {
		for _, sb := range setsFor("b") {
			invs = append(invs, inv{sa, sb, []string{"schemas/a.json", "schemas/b.json"}}, inv{sa, sb, []string{"schemas/b.json", "schemas/a.json"}}, inv{sa, sb, []string{"schemas/a.json"}})
		}
	}
	var reqs [][]byte
	var ids []string
	for i, iv := range invs {
		var pkgs, outs, roots [][]string
		for _, p := range []struct {
			id string
			s  fset
		}{{"urn:a", iv.sa}, {"urn:b", iv.sb}} {
			if p.s.pkg != "" {
				pkgs = append(pkgs, []string{p.id, p.s.pkg})
			}
			if p.s.out != "" {
				outs = append(outs, []string{p.id, p.s.out})
			}
			if p.s.root != "" {
				roots = append(roots, []string{p.id, p.s.root})
			}
		}
		for _, sid := range []string{"urn:a", "urn:b"} {
			rid := fmt.Sprintf("%d-%s", i, sid)
			reqs = append(reqs, core.MustJSON(M{"op": "cliroute", "id": rid, "pkgs": pkgs, "outs": outs, "roots": roots, "defPkg": defPkg, "defOut": defOut, "schemaID": sid}))
			ids = append(ids, rid)
		}
	}
	ans, err := core.RunLean(reqs, ids)
	if err != nil {
		c.Fail("correspondence", "lean driver failed: "+err.Error(), M{"broken": "driver"}, true)
		return
	}
	declRe := func(name string) *regexp.Regexp {
		return regexp.MustCompile(`(?m)^type ` + regexp.QuoteMeta(name) + ` struct`)
	}
	for i, iv := range invs {
		wd := filepath.Join(tmp, fmt.Sprint(i))
		for name, data := range files {
			fn := filepath.Join(wd, name)
			_ = os.MkdirAll(filepath.Dir(fn), 0o755)
			_ = os.WriteFile(fn, []byte(data), 0o644)
		}
		args := []string{"-p", defPkg, "-o", defOut}
		for _, p := range []struct {
			id string
			s  fset
		}{{"urn:a", iv.sa}, {"urn:b", iv.sb}} {
			if p.s.pkg != "" {
				args = append(args, "--schema-package", p.id+"="+p.s.pkg)
			}
			if p.s.out != "" {
				args = append(args, "--schema-output", p.id+"="+p.s.out)
			}
			if p.s.root != "" {
				args = append(args, "--schema-root-type", p.id+"="+p.s.root)
			}
		}
		args = append(args, iv.order...)
		res := runCLI(bin, wd, "", args...)
		shape := fmt.Sprintf("a:%s b:%s order=%d", iv.sa.name, iv.sb.name, len(iv.order)*10+strings.Index(iv.order[0], "a.json")/8)
		c.Eval("partial-mappings|" + shape)
		c.Count("partial mappings", "a:"+iv.sa.name+" b:"+iv.sb.name)
		replay := M{"kind": "cli-multi", "files": files, "args": args, "exit": res.Exit, "stderr": clip(res.Stderr, 400), "outputs": res.Files}
		bad := ""
		if res.Exit != 0 {
			bad = "the invocation fails: " + clip(res.Stderr, 200)
		}
		outs := map[string]string{}
		for name, data := range res.Files {
			if strings.HasSuffix(name, ".go") {
				outs[name] = data
			}
		}
		for _, sid := range []string{"urn:a", "urn:b"} {
			if bad != "" {
				break
			}
			l := ans[fmt.Sprintf("%d-%s", i, sid)].First("ROUTE")
			if l == nil || len(l) < 4 {
				c.Fail("correspondence", "no ROUTE answer from the model", M{"broken": "driver op cliroute"}, true)
				return
			}
			var mFile, mPkg, mRoot string
			_ = jsonUnq(l[1], &mFile)
			_ = jsonUnq(l[2], &mPkg)
			_ = jsonUnq(l[3], &mRoot)
			x := strings.TrimPrefix(sid, "urn:")
			root := mRoot
			if root == "" {
				root = strings.ToUpper(x) + "Json"
			}
			for _, tn := range []string{root, "Def" + strings.ToUpper(x)} {
				var where []string
				for name, data := range outs {
					if declRe(tn).MatchString(data) {
						where = append(where, name)
					}
				}
				switch {
				case mFile == "" && len(where) > 0:
					bad = fmt.Sprintf("%s has a package and no output (its types live elsewhere), yet %s is declared in %v", sid, tn, where)
				case mFile != "" && len(where) == 0:
					bad = fmt.Sprintf("%s is mapped to %s, but %s is declared nowhere", sid, mFile, tn)
				case mFile != "" && (len(where) != 1 || where[0] != mFile):
					bad = fmt.Sprintf("%s is mapped to %s, but %s is declared in %v", sid, mFile, tn, where)
				}
				if bad != "" {
					break
				}
			}
			if bad == "" && mFile != "" {
				short := mPkg[strings.LastIndex(mPkg, "/")+1:]
				if m := pkgClauseRe12.FindStringSubmatch(outs[mFile]); m == nil || m[1] != short {
					bad = fmt.Sprintf("%s: the file %s must say package %s", sid, mFile, short)
				}
			}
		}
		if bad != "" {
			*fails++
			if *fails <= 3 {
				c.Fail("oracle", "partial mappings ("+shape+"): "+bad, replay, false)
			}
		}
	}
	c.Programs += len(invs)
}

package checks

import (
	"encoding/json"
	"fmt"
	"math/big"
	"sort"

	"github.com/atombender/go-jsonschema/pkg/codegen"

	"verifharness/internal/core"
	"verifharness/internal/engine"
	"verifharness/internal/sgen"
)

type kindRange struct{ lo, hi *big.Int }

func bi(s string) *big.Int { v, _ := new(big.Int).SetString(s, 10); return v }

var kindRanges = map[string]kindRange{
	"int8": {bi("-128"), bi("127")}, "int16": {bi("-32768"), bi("32767")}, "int32": {bi("-2147483648"), bi("2147483647")},
	"int64": {bi("-9223372036854775808"), bi("9223372036854775807")}, "int": {bi("-9223372036854775808"), bi("9223372036854775807")},
	"uint8": {bi("0"), bi("255")}, "uint16": {bi("0"), bi("65535")}, "uint32": {bi("0"), bi("4294967295")},
	"uint64": {bi("0"), bi("18446744073709551615")},
}

var signedOrder = []string{"int8", "int16", "int32", "int64"}
var unsignedOrder = []string{"uint8", "uint16", "uint32", "uint64"}

// effective integer bounds of an nbCase: the least and the greatest integer the stated bounds admit (exact for
// fractional constants too: an inclusive minimum m admits ceil(m).., an exclusive one floor(m)+1..)
func (n nbCase) eff() (lo, hi *big.Int) {
	floor := func(x float64) *big.Int {
		r := new(big.Rat).SetFloat64(x)
		q := new(big.Int).Div(r.Num(), r.Denom()) // Euclidean division: floor for a positive denominator
		return q
	}
	ceil := func(x float64) *big.Int {
		r := new(big.Rat).SetFloat64(x)
		q := new(big.Int).Div(r.Num(), r.Denom())
		if !r.IsInt() {
			q.Add(q, big.NewInt(1))
		}
		return q
	}
	one := big.NewInt(1)
	if n.min != nil {
		lo = ceil(*n.min)
		if b, ok := n.xmin.(bool); ok && b {
			lo = new(big.Int).Add(floor(*n.min), one)
		}
	}
	if q, ok := n.xmin.(float64); ok {
		c := new(big.Int).Add(floor(q), one)
		if lo == nil || c.Cmp(lo) > 0 {
			lo = c
		}
	}
	if n.max != nil {
		hi = floor(*n.max)
		if b, ok := n.xmax.(bool); ok && b {
			hi = new(big.Int).Sub(ceil(*n.max), one)
		}
	}
	if q, ok := n.xmax.(float64); ok {
		c := new(big.Int).Sub(ceil(q), one)
		if hi == nil || c.Cmp(hi) < 0 {
			hi = c
		}
	}
	return
}

// fractionalNearLimits: constants a fraction away from the limits of the sized types (and from zero)
func fractionalNearLimits() []float64 {
	var out []float64
	for _, b := range []float64{-2147483648, -32768, -128, 0, 127, 255, 32767, 65535, 2147483647, 4294967295} {
		for _, d := range []float64{-1.5, -0.75, -0.5, -0.25, 0.25, 0.5, 0.75, 1.5} {
			out = append(out, b+d)
		}
	}
	return out
}

func within53(v *big.Int) bool {
	lim := bi("9007199254740992")
	return v == nil || (v.Cmp(new(big.Int).Neg(lim)) >= 0 && v.Cmp(lim) <= 0)
}

func (n nbCase) minintJSON(id int) []byte { return n.req("minint", id) }

func xstr(p *any) string {
	if p == nil {
		return "nil"
	}
	switch t := (*p).(type) {
	case bool:
		return fmt.Sprint(t)
	case float64:
		return new(big.Rat).SetFloat64(t).RatString()
	}
	return "other"
}

func interestingInts() []float64 {
	base := []float64{-9223372036854775808, -2147483648, -32768, -128, 0, 127, 255, 32767, 65535, 2147483647, 4294967295, 9007199254740992}
	seen := map[float64]bool{}
	var out []float64
	for _, b := range base {
		for _, d := range []float64{-1, 0, 1} {
			v := b + d
			if v > 9007199254740992 || (v < -9007199254740992 && v != -9223372036854775808) {
				continue
			}
			if !seen[v] {
				seen[v] = true
				out = append(out, v)
			}
		}
	}
	out = append(out, 5, -5, 1000, 100000)
	return out
}

func init() {
	register("C15", func(c *engine.Ctx) {
		c.Rule = "function level: codegen.PrimitiveTypeFromJSONSchemaType(integer, minIntSize) on bounds on, next to and between all eight type limits in every presence/kind combination, compared with the model and judged directly (chosen type holds every admitted integer, is the narrowest of its signedness, a bound is cleared only if the type implies it); emitted code: flag-on and flag-off programs on the same boundary documents must give the same verdict, at required / optional / nullable positions and with the integer written as a property next to allOf / anyOf (root and definition). Distinct = distinct (bounds skeleton, chosen type, value class)."
		c.Proofs([]string{"GJS.Props.C15"}, []string{
			"GJS.Props.C15.getMinIntType_int", "GJS.Props.C15.rmLo_implied", "GJS.Props.C15.rmHi_implied", "GJS.Props.C15.kind_fits",
			"GJS.Props.C15.kind_minimal_unsigned", "GJS.Props.C15.kind_minimal_signed", "GJS.Props.C15.same_accepts_Z",
			"GJS.Props.C15.accOn_iff_spec", "GJS.Props.C15.intAccepts_on", "GJS.Props.C15.intAccepts_off", "GJS.Props.C15.same_accepts",
			"GJS.Props.C15.type_fits", "GJS.Props.C15.KF_uint64_wider",
			"GJS.Props.C15.keptSchema_off", "GJS.Props.C15.kept_bounds_cleared", "GJS.Props.C15.msRewriteNode_integer", "GJS.Props.C15.KF_rewritten_twin",
		})
		factsOf(c, "intLimits", "minIntBookkeeping", "nbComparisons")
		oracleFails := 0
		vals := interestingInts()
		// ---- function level ----
		var cases []nbCase
		kinds := []int{0, 1, 2, 3}
		pick := func() *float64 { v := core.Pick(c.R, vals); return &v }
		nPer := c.N(6, 60)
		for _, kmin := range kinds {
			for _, kmax := range kinds {
				for _, hasMin := range []bool{false, true} {
					for _, hasMax := range []bool{false, true} {
						for rep := 0; rep < nPer; rep++ {
							var n nbCase
							if hasMin {
								n.min = pick()
							}
							if hasMax {
								n.max = pick()
							}
							switch kmin {
							case 1:
								n.xmin = false
							case 2:
								n.xmin = true
							case 3:
								n.xmin = *pick()
							}
							switch kmax {
							case 1:
								n.xmax = false
							case 2:
								n.xmax = true
							case 3:
								n.xmax = *pick()
							}
							cases = append(cases, n)
						}
					}
				}
			}
		}
		// plus every single-bound and two-bound combination of the limits themselves (systematic)
		for _, a := range vals {
			a := a
			cases = append(cases, nbCase{min: &a}, nbCase{max: &a}, nbCase{xmin: a}, nbCase{xmax: a}, nbCase{min: &a, xmin: true}, nbCase{max: &a, xmax: true})
			for _, b := range vals {
				b := b
				if a <= b {
					cases = append(cases, nbCase{min: &a, max: &b})
				}
			}
		}
		// fractional constants next to the type limits: the type is chosen from a bound that is not itself an admitted
		// value, so rounding decides (every kind of bound, alone and with an integral partner on the other side)
		firstFractional := len(cases)
		for _, a := range fractionalNearLimits() {
			a := a
			cases = append(cases, nbCase{min: &a}, nbCase{max: &a}, nbCase{xmin: a}, nbCase{xmax: a}, nbCase{min: &a, xmin: true}, nbCase{max: &a, xmax: true})
			for _, b := range []float64{-100, 0, 100} {
				b := b
				if b < a {
					cases = append(cases, nbCase{min: &b, max: &a}, nbCase{min: &b, xmax: a}, nbCase{min: &b, max: &a, xmax: true})
				}
				if b > a {
					cases = append(cases, nbCase{min: &a, max: &b}, nbCase{xmin: a, max: &b}, nbCase{min: &a, xmin: true, max: &b})
				}
			}
		}
		c.Streams["c15-fractional-near-limits"] = len(cases) - firstFractional
		var reqs [][]byte
		var ids []string
		for i, n := range cases {
			reqs = append(reqs, n.minintJSON(i))
			ids = append(ids, fmt.Sprint(i))
		}
		ans, err := core.RunLean(reqs, ids)
		if err != nil {
			c.Fail("correspondence", "lean driver failed: "+err.Error(), M{"broken": "driver"}, true)
			return
		}
		fnDis := 0
		for i, n := range cases {
			min, max := n.min, n.max
			if min != nil {
				v := *min
				min = &v
			}
			if max != nil {
				v := *max
				max = &v
			}
			xmin, xmax := anyPtr(n.xmin), anyPtr(n.xmax)
			t, err := codegen.PrimitiveTypeFromJSONSchemaType("integer", "", false, true, &min, &max, &xmin, &xmax)
			if err != nil {
				c.Fail("oracle", "PrimitiveTypeFromJSONSchemaType failed: "+err.Error(), M{"kind": "function", "case": n}, false)
				continue
			}
			kind := t.(codegen.PrimitiveType).Type
			real := fmt.Sprintf("%s %s %s %s %s", kind, fstr(min), fstr(max), xstr(xmin), xstr(xmax))
			model := ""
			if l := ans[fmt.Sprint(i)].First("MININT"); l != nil && len(l) > 1 {
				model = l[1]
			}
			c.Count("chosen-kind", kind)
			lo0, hi0 := n.eff()
			exclusiveInvolved := !(n.xmin == nil || n.xmin == false) || !(n.xmax == nil || n.xmax == false)
			if exclusiveInvolved && (!within53(lo0) || !within53(hi0)) {
				// beyond 2^53 the +-1 adjustment is absorbed by float64 rounding; outside the modelled domain (convention F)
				c.Count("oracle", "skipped-float-rounding-beyond-2^53")
				continue
			}
			if real != model {
				fnDis++
				if fnDis <= 3 {
					c.Fail("correspondence", "PrimitiveTypeFromJSONSchemaType: real="+real+" model="+model,
						M{"kind": "function", "function": "codegen.PrimitiveTypeFromJSONSchemaType", "min": n.min, "max": n.max, "xmin": n.xmin, "xmax": n.xmax, "broken": "function-level correspondence getMinIntType"}, oracleFails == 0)
				}
			}
			// direct judgement (scope F15: all constants within 2^53)
			lo, hi := n.eff()
			if !within53(lo) || !within53(hi) {
				c.Count("oracle", "skipped-outside-F15")
				continue
			}
			c.Eval(fmt.Sprintf("minint|%v|%v|%s", lo, hi, kind))
			kr := kindRanges[kind]
			i64 := kindRanges["int64"]
			bad := ""
			// fits: every admitted integer that an int64 holds lies in the kind's range
			admLo, admHi := i64.lo, i64.hi
			if lo != nil && lo.Cmp(admLo) > 0 {
				admLo = lo
			}
			if hi != nil && hi.Cmp(admHi) < 0 {
				admHi = hi
			}
			if admLo.Cmp(admHi) <= 0 && (admLo.Cmp(kr.lo) < 0 || admHi.Cmp(kr.hi) > 0) {
				bad = fmt.Sprintf("type %s cannot hold the admitted interval [%v,%v]", kind, admLo, admHi)
			}
			// narrowest (both bounds present, non-empty interval)
			if bad == "" && lo != nil && hi != nil && lo.Cmp(hi) <= 0 {
				order := signedOrder
				if lo.Sign() >= 0 {
					order = unsignedOrder
				}
				for _, k := range order {
					r := kindRanges[k]
					if lo.Cmp(r.lo) >= 0 && hi.Cmp(r.hi) <= 0 {
						if k != kind {
							bad = fmt.Sprintf("type %s is not the narrowest: %s holds [%v,%v]", kind, k, lo, hi)
						}
						break
					}
				}
			}
			// a cleared bound must be implied by the type
			if bad == "" && lo != nil && min == nil && xmin == nil && kr.lo.Cmp(lo) < 0 {
				bad = fmt.Sprintf("lower bound %v was cleared but %s starts at %v", lo, kind, kr.lo)
			}
			if bad == "" && hi != nil && max == nil && xmax == nil && kr.hi.Cmp(hi) > 0 {
				bad = fmt.Sprintf("upper bound %v was cleared but %s ends at %v", hi, kind, kr.hi)
			}
			// a bound that is kept must still be the stated one (no shifting through aliases)
			if bad == "" && min != nil && n.min != nil && *min != *n.min {
				bad = fmt.Sprintf("minimum was changed from %v to %v", *n.min, *min)
			}
			if bad == "" && max != nil && n.max != nil && *max != *n.max {
				bad = fmt.Sprintf("maximum was changed from %v to %v", *n.max, *max)
			}
			if bad == "" && ((min == nil) != (xmin == nil && n.xmin != nil || n.min == nil && min == nil) && false) {
				bad = ""
			}
			// partial clearing: minimum cleared but a stated exclusiveMinimum kept (or the reverse) changes the set only if not implied
			if bad != "" {
				oracleFails++
				if oracleFails <= 3 {
					c.Fail("oracle", "min-sized-ints: "+bad+fmt.Sprintf(" (min=%s max=%s xmin=%v xmax=%v -> %s)", fstr(n.min), fstr(n.max), n.xmin, n.xmax, real),
						M{"kind": "function", "function": "codegen.PrimitiveTypeFromJSONSchemaType", "min": n.min, "max": n.max, "xmin": n.xmin, "xmax": n.xmax, "real": real}, false)
				}
			}
		}
		c.Streams["c15-function"] = len(cases)
		c.Sample(M{"function": "PrimitiveTypeFromJSONSchemaType", "min": 0, "exclusiveMaximum": 256, "expect": "uint8, both bounds cleared"})

		// ---- emitted code: flag on vs flag off ----
		var pcs []*core.PCase
		stride := c.N(23, 3)
		for i, n := range cases {
			if i%stride != 0 && (i < firstFractional || (i-firstFractional)%c.N(5, 1) != 0) {
				continue
			}
			lo, hi := n.eff()
			if !within53(lo) || !within53(hi) {
				continue
			}
			pos := AllPositions[i%3]
			keys := n.schemaKeys("integer")
			if i%4 == 1 {
				// a multipleOf every integer satisfies next to the bounds: the remainder check must not displace the
				// bound checks (with or without the flag)
				keys["multipleOf"] = 1
			}
			schema, mk := fieldProgram(pos, keys)
			var docs []any
			seen := map[string]bool{}
			add := func(v *big.Int) {
				if v == nil || seen[v.String()] {
					return
				}
				if v.Cmp(kindRanges["int64"].lo) < 0 || v.Cmp(kindRanges["int64"].hi) > 0 {
					return
				}
				seen[v.String()] = true
				docs = append(docs, mk(json.Number(v.String()), false))
			}
			one := big.NewInt(1)
			for _, b := range []*big.Int{lo, hi} {
				if b != nil {
					add(new(big.Int).Sub(b, one))
					add(b)
					add(new(big.Int).Add(b, one))
				}
			}
			for _, k := range []string{"int8", "uint8", "int16", "uint16", "int32", "uint32"} {
				r := kindRanges[k]
				near := func(v *big.Int) bool {
					return (lo == nil || new(big.Int).Sub(v, lo).CmpAbs(big.NewInt(70000)) <= 0) || (hi == nil || new(big.Int).Sub(v, hi).CmpAbs(big.NewInt(70000)) <= 0)
				}
				if near(r.lo) {
					add(new(big.Int).Sub(r.lo, one))
					add(r.lo)
				}
				if near(r.hi) {
					add(r.hi)
					add(new(big.Int).Add(r.hi, one))
				}
			}
			add(big.NewInt(0))
			on := baseCase("c15-flag-on", schema, docs, string(pos))
			on.Cfg.MinSizedInts = true
			off := baseCase("c15-flag-off", schema, docs, string(pos))
			pcs = append(pcs, on, off)
			if (i/stride)%2 == 0 {
				// the same integer as a DECLARED type: a definition reached through $ref (required / optional member, array
				// items) — the bounds reach the type chooser through another call site than for an inline member
				var vals []string
				for k := range seen {
					vals = append(vals, k)
				}
				sort.Strings(vals)
				for di, shape := range []string{"required-ref", "optional-ref", "items-ref"} {
					if di != (i/stride/2)%3 && !c.Thorough() {
						continue
					}
					sch := M{"type": "object", "$defs": M{"N": n.schemaKeys("integer")}}
					var docs3 []any
					switch shape {
					case "required-ref":
						sch["properties"], sch["required"] = M{"v": M{"$ref": "#/$defs/N"}}, []any{"v"}
					case "optional-ref":
						sch["properties"] = M{"v": M{"$ref": "#/$defs/N"}}
					default:
						sch["properties"] = M{"v": M{"type": "array", "items": M{"$ref": "#/$defs/N"}}}
					}
					for _, k := range vals {
						if shape == "items-ref" {
							docs3 = append(docs3, M{"v": []any{json.Number(k)}})
						} else {
							docs3 = append(docs3, M{"v": json.Number(k)})
						}
					}
					on3 := baseCase("c15-flag-on", sch, docs3, "definition-"+shape)
					on3.Cfg.MinSizedInts = true
					off3 := baseCase("c15-flag-off", sch, docs3, "definition-"+shape)
					pcs = append(pcs, on3, off3)
				}
			}
			if (i/stride)%3 == 0 {
				// the same integer as a property written NEXT TO allOf / anyOf, at the root and in a definition: the
				// schema node is then reachable twice (as a sibling and through the merge)
				for _, kw := range []string{"allOf", "anyOf"} {
					for _, inDef := range []bool{false, true} {
						obj := M{"type": "object", "properties": M{"v": n.schemaKeys("integer")}, kw: []any{M{"type": "object", "properties": M{"name": M{"type": "string"}}}}}
						var sch M = obj
						wrap := func(d any) any { return d }
						if inDef {
							sch = M{"type": "object", "properties": M{"d": M{"$ref": "#/$defs/D"}}, "$defs": M{"D": obj}}
							wrap = func(d any) any { return M{"d": d} }
						}
						var docs2 []any
						for _, d := range docs {
							docs2 = append(docs2, wrap(d))
						}
						on2 := baseCase("c15-flag-on", sch, docs2, "sibling-of-"+kw+fmt.Sprint(inDef))
						on2.Cfg.MinSizedInts = true
						off2 := baseCase("c15-flag-off", sch, docs2, "sibling-of-"+kw+fmt.Sprint(inDef))
						pcs = append(pcs, on2, off2)
					}
				}
			}
		}
		// the integer as a member of a DEFINITION that is also folded into an allOf (the merge reads the definition's
		// node after the flag has rewritten it: listed finding K36)
		for i, n := range cases {
			if i%(stride*3) != 0 {
				continue
			}
			lo, hi := n.eff()
			if !within53(lo) || !within53(hi) {
				continue
			}
			sch := M{"type": "object", "properties": M{"x": M{"allOf": []any{M{"$ref": "#/$defs/Base"}, M{"type": "object", "properties": M{"m": M{"type": "string"}}}}}, "y": M{"$ref": "#/$defs/Base"}},
				"$defs": M{"Base": M{"type": "object", "properties": M{"v": n.schemaKeys("integer")}}}}
			var docs []any
			one := big.NewInt(1)
			seen := map[string]bool{}
			for _, b := range []*big.Int{lo, hi, big.NewInt(0), big.NewInt(-1), big.NewInt(127), big.NewInt(128), big.NewInt(255), big.NewInt(256), big.NewInt(-129), big.NewInt(65536)} {
				if b == nil {
					continue
				}
				for _, v := range []*big.Int{new(big.Int).Sub(b, one), b, new(big.Int).Add(b, one)} {
					if seen[v.String()] || v.Cmp(kindRanges["int64"].lo) < 0 || v.Cmp(kindRanges["int64"].hi) > 0 {
						continue
					}
					seen[v.String()] = true
					docs = append(docs, M{"x": M{"v": json.Number(v.String())}}, M{"y": M{"v": json.Number(v.String())}})
				}
			}
			lab := []string{"definition folded into allOf", "", "", "K36-region"}
			on := baseCase("c15-flag-on", sch, docs, lab...)
			on.Cfg.MinSizedInts = true
			off := baseCase("c15-flag-off", sch, docs, lab...)
			pcs = append(pcs, on, off)
		}
		// twins: two integer nodes that ask for the same Go type name, the first with bounds the flag turns into a
		// narrower type, the second with what is left of them once the implied bounds are cleared, with fewer bounds
		// or with none — told apart only by their descriptions (annotated=true) or by nothing else (annotated=false:
		// the listed finding K35, the first node is rewritten in place before the second is compared with it)
		type twin struct {
			name          string
			first, second M
		}
		twins := []twin{
			{"0..255 / unbounded", M{"type": "integer", "minimum": 0, "maximum": 255}, M{"type": "integer"}},
			{"0..65535 / unbounded", M{"type": "integer", "minimum": 0, "maximum": 65535}, M{"type": "integer"}},
			{"-128..127 / unbounded", M{"type": "integer", "minimum": -128, "maximum": 127}, M{"type": "integer"}},
			{"0..100 / max 100", M{"type": "integer", "minimum": 0, "maximum": 100}, M{"type": "integer", "maximum": 100}},
			{"min 0 / unbounded", M{"type": "integer", "minimum": 0}, M{"type": "integer"}},
			{"-32768..1000 / max 1000", M{"type": "integer", "minimum": -32768, "maximum": 1000}, M{"type": "integer", "maximum": 1000}},
			{"0..255 / 0..255", M{"type": "integer", "minimum": 0, "maximum": 255}, M{"type": "integer", "minimum": 0, "maximum": 255}},
			{"0..255 / 0..256", M{"type": "integer", "minimum": 0, "maximum": 255}, M{"type": "integer", "minimum": 0, "maximum": 256}},
		}
		twinVals := []int64{-40000, -32769, -129, -128, -1, 0, 100, 101, 127, 128, 255, 256, 1000, 1001, 65535, 65536, 100000}
		for _, tw := range twins {
			for _, annotated := range []bool{true, false} {
				for _, way := range []string{"definitions", "nested-in-siblings", "definition-and-property"} {
					for _, swap := range []bool{false, true} {
						a, b := sgen.DeepCopy(tw.first).(M), sgen.DeepCopy(tw.second).(M)
						if annotated {
							a["description"], b["description"] = "the first of the two", "the second of the two"
						}
						if swap {
							a, b = b, a
						}
						var sch M
						var mk func(v int64) any
						switch way {
						case "definitions":
							sch = M{"type": "object", "properties": M{"p": M{"$ref": "#/$defs/a-b"}, "q": M{"$ref": "#/$defs/a_b"}}, "$defs": M{"a-b": a, "a_b": b}}
							mk = func(v int64) any { return M{"p": v, "q": v} }
						case "nested-in-siblings":
							sch = M{"type": "object", "properties": M{"a-b": M{"type": "object", "properties": M{"n": a}}, "a_b": M{"type": "object", "properties": M{"n": b}}}}
							mk = func(v int64) any { return M{"a-b": M{"n": v}, "a_b": M{"n": v}} }
						case "definition-and-property":
							sch = M{"type": "object", "properties": M{"p": M{"type": "object", "properties": M{"n": b}}, "q": M{"$ref": "#/$defs/RootP"}}, "$defs": M{"RootP": M{"type": "object", "properties": M{"n": a}}}}
							mk = func(v int64) any { return M{"p": M{"n": v}, "q": M{"n": v}} }
						}
						var docs []any
						for _, v := range twinVals {
							// one side at a time, so that the verdict is that side's
							d := mk(v).(M)
							for k := range d {
								one := M{k: d[k]}
								docs = append(docs, one)
							}
						}
						region := "in-scope"
						if !annotated {
							region = "K35-region"
						}
						lab := []string{"twins " + tw.name, way, fmt.Sprintf("swap=%v", swap), region}
						on := baseCase("c15-flag-on", sch, docs, lab...)
						on.Cfg.MinSizedInts = true
						off := baseCase("c15-flag-off", sch, docs, lab...)
						pcs = append(pcs, on, off)
					}
				}
			}
		}
		res := runCases(c, pcs)
		for i := 0; i+1 < len(res); i += 2 {
			on, off := res[i], res[i+1]
			if on.RunsJ == nil || off.RunsJ == nil {
				continue
			}
			if len(on.Case.Labels) == 4 && on.Case.Labels[3] == "K36-region" && knownListed(c, "K36-minsized-rewritten-node-merged") {
				c.Count("c15", "K36 region (a definition with integer members folded into an allOf; judged by the listed witness)")
				continue
			}
			if len(on.Case.Labels) == 4 && on.Case.Labels[3] == "K35-region" && knownListed(c, "K35-minsized-rewrites-compared-node") {
				c.Count("c15", "K35 region (same-named integer twins told apart by their bounds only; judged by the listed witness)")
				continue
			}
			for d := range on.DocJSON {
				c.Eval(fmt.Sprintf("flag|%s|%s|%s", on.Case.Labels, on.RunsJ[d].Kind, classOfDoc(on.DocJSON[d])))
				c.Count("flag-pair", on.RunsJ[d].Kind+"/"+off.RunsJ[d].Kind)
				if on.RunsJ[d].Kind != off.RunsJ[d].Kind {
					oracleFails++
					if oracleFails <= 3 {
						c.Fail("oracle", fmt.Sprintf("--min-sized-ints changes the verdict: with the flag %s, without %s", on.RunsJ[d].Kind, off.RunsJ[d].Kind),
							replayOf(on, d, M{"flag_off": off.RunsJ[d].Kind + " " + off.RunsJ[d].Msg}), false)
					}
				}
			}
			if len(c.Samples) < 5 && len(on.DocJSON) > 0 {
				c.Sample(M{"schema": string(on.SchemaJSON), "doc": on.DocJSON[0], "flag_on": on.RunsJ[0].Kind, "flag_off": off.RunsJ[0].Kind})
			}
		}
		breaks(c, res, nil, oracleFails > 0)
		c.FactsVerdict(oracleFails > 0)
		knownProgramFindings(c)
		knownPairFindings(c)
	})
}

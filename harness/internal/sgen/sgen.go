// Package sgen generates structured, mostly-valid schemas and documents from one PRNG.
package sgen

import (
	"fmt"
	"math"
	"strings"

	"verifharness/internal/core"
)

type M = map[string]any

// Opts selects which features the random schemas may use.
type Opts struct {
	Defs        bool // $defs + $ref
	Comp        bool // allOf / anyOf
	Addl        bool // additionalProperties
	Maps        bool // property-less objects with a typed additionalProperties (Go maps)
	Defaults    bool
	Formats     bool
	Nullable    bool
	Enums       bool
	MaxDepth    int
	BigInts     bool // bounds near the integer type limits
	LegacySpell bool // definitions / #/definitions/
	Titles      bool
	Unicode     bool // multi-byte strings in documents
	// scope restrictions (each excludes one known-finding region from a stream that is judged by the reference)
	NoNestedLimits bool // no minItems/maxItems on an array whose items are arrays (K2)
	NoFormatDefs   bool // no format-typed strings as definitions (a defined type loses the format's methods)
	NoAliasDefs    bool // no definition that is only a $ref to another definition (becomes interface{}, K18)
}

func AllOpts() Opts {
	return Opts{Defs: true, Comp: true, Addl: true, Maps: true, Defaults: true, Formats: true, Nullable: true, Enums: true, MaxDepth: 3, Unicode: true}
}

type G struct {
	R      *core.Rng
	O      Opts
	Draft4 bool
	Defs   M
	Counts map[string]int // keyword / position histogram
}

func New(r *core.Rng, o Opts) *G { return &G{R: r, O: o, Counts: map[string]int{}} }

func (g *G) hit(k string) { g.Counts[k]++ }

func (g *G) NumSchema(ty string) M {
	g.hit("kw:" + ty)
	r := g.R
	s := M{"type": ty}
	los := []any{nil, nil, 0, 1, 2, -3}
	his := []any{nil, nil, 5, 8, 10}
	frac := r.P(0.25) // fractional bounds, on numbers and (since fix R11 in scope) on integers
	if frac {
		los = []any{nil, -2.5, -0.5, 0.5, 1.5, 2.25}
		his = []any{nil, 4.5, 5.5, 7.25, 9.75}
		g.hit("kw:fractional-bound")
	}
	if g.O.BigInts && ty == "integer" && r.P(0.5) {
		los = []any{nil, 0, -128, -129, -32768, -2147483648, -2147483649, 1}
		his = []any{nil, 127, 128, 255, 256, 32767, 65535, 65536, 2147483647, 4294967295, 4294967296}
	}
	lo, hi := core.Pick(r, los), core.Pick(r, his)
	if lo != nil && hi != nil && toF(lo) > toF(hi) {
		lo, hi = hi, lo
	}
	if lo != nil && r.P(0.8) {
		s["minimum"] = lo
		g.hit("kw:minimum")
	}
	if hi != nil && r.P(0.8) {
		s["maximum"] = hi
		g.hit("kw:maximum")
	}
	if g.Draft4 {
		if _, ok := s["minimum"]; ok && r.P(0.4) {
			s["exclusiveMinimum"] = r.P(0.5)
			g.hit("kw:exclusiveMinimum-bool")
		}
		if _, ok := s["maximum"]; ok && r.P(0.4) {
			s["exclusiveMaximum"] = r.P(0.5)
			g.hit("kw:exclusiveMaximum-bool")
		}
	} else {
		if r.P(0.3) {
			s["exclusiveMinimum"] = core.Pick(r, []any{0, 1, 2, -3})
			if frac {
				s["exclusiveMinimum"] = core.Pick(r, []any{-0.5, 0.5, 1.5, -2.5})
			}
			g.hit("kw:exclusiveMinimum-num")
		}
		if r.P(0.3) {
			s["exclusiveMaximum"] = core.Pick(r, []any{5, 8, 10, 9})
			if frac {
				s["exclusiveMaximum"] = core.Pick(r, []any{4.5, 8.5, 9.25})
			}
			g.hit("kw:exclusiveMaximum-num")
		}
	}
	if r.P(0.2) {
		if ty == "integer" {
			s["multipleOf"] = core.Pick(r, []any{2, 3, 5})
		} else {
			s["multipleOf"] = core.Pick(r, []any{2, 0.5, 0.25, 1.5})
		}
		g.hit("kw:multipleOf")
	}
	return s
}

func toF(v any) float64 {
	switch t := v.(type) {
	case int:
		return float64(t)
	case float64:
		return t
	}
	return 0
}

func (g *G) StrSchema() M {
	g.hit("kw:string")
	r := g.R
	s := M{"type": "string"}
	if g.O.Formats && r.P(0.12) {
		s["format"] = core.Pick(r, []string{"date", "time", "date-time", "ipv4", "ipv6"})
		g.hit("kw:format")
		return s
	}
	if r.P(0.5) {
		s["minLength"] = core.Pick(r, []int{1, 2, 3})
		g.hit("kw:minLength")
	}
	if r.P(0.5) {
		s["maxLength"] = core.Pick(r, []int{3, 4, 6})
		g.hit("kw:maxLength")
	}
	if r.P(0.3) {
		s["pattern"] = core.Pick(r, []string{"^a", "z$", "^abc$", "b", "^[a-z]*$", "^[0-9]+$"})
		g.hit("kw:pattern")
	}
	return s
}

func (g *G) EnumSchema() M {
	g.hit("kw:enum")
	r := g.R
	switch core.Pick(r, []string{"s", "i", "n", "mixed", "b", "typed_s", "typed_i", "typed_n"}) {
	case "s":
		return M{"enum": toAny(core.Sample(r, []string{"red", "green", "blue", "x y", "a"}, r.Range(1, 3)))}
	case "i":
		return M{"enum": toAny(core.Sample(r, []int{1, 2, 3, 10, -1}, r.Range(1, 3)))}
	case "n":
		return M{"enum": toAny(core.Sample(r, []float64{1.5, 2, 3.25}, r.Range(1, 3)))}
	case "b":
		return M{"enum": []any{true}}
	case "mixed":
		return M{"enum": core.Sample(r, []any{1, "a", nil, true, 2.5}, r.Range(2, 4))}
	case "typed_s":
		return M{"type": "string", "enum": toAny(core.Sample(r, []string{"red", "green", "blue"}, r.Range(1, 3)))}
	case "typed_n":
		return M{"type": "number", "enum": toAny(core.Sample(r, []float64{1.5, 2, 3.25}, r.Range(1, 3)))}
	}
	return M{"type": "integer", "enum": toAny(core.Sample(r, []int{1, 2, 3, 10}, r.Range(1, 3)))}
}

func toAny[T any](xs []T) []any {
	out := make([]any, len(xs))
	for i, x := range xs {
		out[i] = x
	}
	return out
}

func (g *G) ArrSchema(depth int) M {
	g.hit("kw:array")
	r := g.R
	items := g.PropSchema(depth+1, true)
	s := M{"type": "array", "items": items}
	if g.O.NoNestedLimits {
		it, _ := g.resolve(items)
		if typeOf(it) == "array" {
			return s
		}
	}
	if r.P(0.5) {
		s["minItems"] = core.Pick(r, []int{1, 2})
		g.hit("kw:minItems")
	}
	if r.P(0.5) {
		s["maxItems"] = core.Pick(r, []int{2, 3})
		g.hit("kw:maxItems")
	}
	return s
}

var propNames = []string{"a", "b", "c", "name", "val", "x1", "fooBar", "foo_bar", "Foo", "id", "URL", "my-key", "k 2"}

func (g *G) ObjSchema(depth int) M {
	g.hit("kw:object")
	r := g.R
	n := r.Range(1, 3)
	props := M{}
	for i := 0; i < n; i++ {
		name := core.Pick(r, propNames)
		if !r.P(0.7) {
			name += fmt.Sprint(i)
		}
		props[name] = g.PropSchema(depth+1, false)
	}
	s := M{"type": "object", "properties": props}
	var req []any
	for _, k := range core.SortedKeys(props) {
		if r.P(0.4) {
			req = append(req, k)
		}
	}
	if len(req) > 0 {
		s["required"] = req
		g.hit("kw:required")
	}
	if g.O.Addl && r.P(0.2) {
		s["additionalProperties"] = core.Pick(r, []any{true, false, M{"type": "integer"}, M{"type": "string"}, M{"type": "number"}, M{"type": "boolean"}})
		g.hit("kw:additionalProperties")
	}
	return s
}

func (g *G) branch(names []string) M {
	r := g.R
	props := M{}
	for _, k := range names {
		switch r.Intn(3) {
		case 0:
			props[k] = g.NumSchema("integer")
		case 1:
			props[k] = g.StrSchema()
		default:
			props[k] = M{"type": "boolean"}
		}
		delete(props[k].(M), "format")
	}
	b := M{"type": "object", "properties": props}
	var req []any
	for _, k := range core.SortedKeys(props) {
		if r.P(0.5) {
			req = append(req, k)
		}
	}
	if len(req) > 0 {
		b["required"] = req
	}
	return b
}

// ObjBranch is an object schema over the given property names (integer / string / boolean, random required).
func (g *G) ObjBranch(names []string) M { return g.branch(names) }

func (g *G) CompSchema() M {
	r := g.R
	kind := core.Pick(r, []string{"allOf", "anyOf"})
	g.hit("kw:" + kind)
	pool := []string{"p", "q", "r", "s", "t", "u"}
	core.Shuffle(r, pool)
	n := r.Range(2, 3)
	overlap := r.P(0.3)
	var bs []any
	for i := 0; i < n; i++ {
		var names []string
		if overlap {
			names = core.Sample(r, pool[:3], 2)
		} else {
			names = pool[2*i : 2*i+2]
		}
		bs = append(bs, g.branch(names))
	}
	if r.P(0.5) {
		return M{kind: bs}
	}
	return M{"type": "object", kind: bs}
}

func (g *G) PropSchema(depth int, inArray bool) M {
	r := g.R
	kinds := []string{"int", "num", "str", "bool"}
	if g.O.Enums {
		kinds = append(kinds, "enum")
	}
	if depth < g.O.MaxDepth {
		kinds = append(kinds, "arr", "obj")
	}
	if depth < 2 && g.O.Comp {
		kinds = append(kinds, "comp")
	}
	if g.O.Maps && !inArray {
		kinds = append(kinds, "map")
	}
	if len(g.Defs) > 0 && r.P(0.25) {
		g.hit("kw:$ref")
		pre := "#/$defs/"
		if g.O.LegacySpell {
			pre = "#/definitions/"
		}
		return M{"$ref": pre + core.Pick(r, core.SortedKeys(g.Defs))}
	}
	k := core.Pick(r, kinds)
	var s M
	switch k {
	case "int":
		s = g.NumSchema("integer")
	case "num":
		s = g.NumSchema("number")
	case "str":
		s = g.StrSchema()
	case "bool":
		s = M{"type": "boolean"}
		g.hit("kw:boolean")
	case "enum":
		s = g.EnumSchema()
	case "arr":
		s = g.ArrSchema(depth)
	case "comp":
		return g.CompSchema()
	case "map":
		g.hit("kw:map")
		var v M
		if len(g.Defs) > 0 && r.P(0.35) {
			// the value type given only by a reference
			pre := "#/$defs/"
			if g.O.LegacySpell {
				pre = "#/definitions/"
			}
			g.hit("kw:map-of-$ref")
			return M{"type": "object", "additionalProperties": M{"$ref": pre + core.Pick(r, core.SortedKeys(g.Defs))}}
		}
		switch r.Intn(5) {
		case 0:
			v = g.NumSchema("integer")
		case 1:
			v = g.NumSchema("number")
		case 2:
			v = M{"type": "string"}
		case 3:
			v = M{"type": "boolean"}
		default:
			v = M{"type": "array", "items": M{"type": "integer"}}
		}
		delete(v, "format")
		s = M{"type": "object", "additionalProperties": v}
	default:
		s = g.ObjSchema(depth)
	}
	if g.O.Formats && (k == "int" || k == "num" || k == "bool") && r.P(0.12) {
		// `format` on a non-string type is an annotation the generator must ignore
		s["format"] = core.Pick(r, []string{"date-time", "date", "time", "ipv4", "ipv6", "int32", "email"})
		g.hit("kw:format-on-non-string")
	}
	_, isFmt := s["format"]
	if k != "str" {
		isFmt = false
	}
	if g.O.Defaults && !inArray && !isFmt && (k == "int" || k == "num" || k == "str" || k == "bool") && r.P(0.15) {
		var cands []any
		switch k {
		case "int":
			cands = []any{0, 1, 2, 5, 8}
		case "num":
			cands = []any{0.5, 1, 2, 5.5}
		case "str":
			cands = []any{"a", "ab", "abc", "z"}
		default:
			cands = []any{true, false}
		}
		var ok []any
		for _, c := range cands {
			if LocalValid(s, c) {
				ok = append(ok, c)
			}
		}
		if len(ok) > 0 {
			s["default"] = core.Pick(r, ok)
			g.hit("kw:default")
		}
	}
	if t, isStr := s["type"].(string); isStr && g.O.Nullable && k != "obj" && r.P(0.15) {
		s["type"] = []any{t, "null"}
		g.hit("kw:nullable")
	}
	return s
}

// Root builds a whole schema document.
func (g *G) Root(id string) M {
	r := g.R
	g.Draft4 = r.P(0.3)
	g.Defs = M{}
	if g.O.Defs {
		saved := g.O.Formats
		if g.O.NoFormatDefs {
			g.O.Formats = false
		}
		for _, dn := range core.Sample(r, []string{"Thing", "Pos", "Name", "Item", "my_def"}, r.Intn(3)) {
			d := g.PropSchema(1, false)
			for tries := 0; g.O.NoAliasDefs && d["$ref"] != nil && tries < 20; tries++ {
				d = g.PropSchema(1, false)
			}
			if g.O.NoAliasDefs && d["$ref"] != nil {
				d = M{"type": "boolean"}
			}
			g.Defs[dn] = d
		}
		g.O.Formats = saved
	}
	root := g.ObjSchema(0)
	if id != "" {
		root["$id"] = id
	}
	if len(g.Defs) > 0 {
		if g.O.LegacySpell {
			root["definitions"] = g.Defs
		} else {
			root["$defs"] = g.Defs
		}
	}
	if g.O.Titles && r.P(0.5) {
		root["title"] = core.Pick(r, []string{"My Title", "thing", "A long title with several words in it", "x"})
	}
	return root
}

// ---------- documents ----------

func numOK(s M, v float64) bool {
	if m, ok := s["minimum"]; ok {
		if b, isB := s["exclusiveMinimum"].(bool); isB && b {
			if !(v > toF(m)) {
				return false
			}
		} else if !(v >= toF(m)) {
			return false
		}
	}
	if m, ok := s["maximum"]; ok {
		if b, isB := s["exclusiveMaximum"].(bool); isB && b {
			if !(v < toF(m)) {
				return false
			}
		} else if !(v <= toF(m)) {
			return false
		}
	}
	if x, ok := s["exclusiveMinimum"]; ok {
		if _, isB := x.(bool); !isB && !(v > toF(x)) {
			return false
		}
	}
	if x, ok := s["exclusiveMaximum"]; ok {
		if _, isB := x.(bool); !isB && !(v < toF(x)) {
			return false
		}
	}
	if m, ok := s["multipleOf"]; ok {
		q := v / toF(m)
		if q != math.Trunc(q) {
			return false
		}
	}
	return true
}

func strOK(s M, v string) bool {
	n := len([]rune(v))
	if m, ok := s["minLength"]; ok && n < int(toF(m)) {
		return false
	}
	if m, ok := s["maxLength"]; ok && n > int(toF(m)) {
		return false
	}
	if p, ok := s["pattern"].(string); ok {
		switch p {
		case "^a":
			return strings.HasPrefix(v, "a")
		case "z$":
			return strings.HasSuffix(v, "z")
		case "^abc$":
			return v == "abc"
		case "b":
			return strings.Contains(v, "b")
		case "^[a-z]*$":
			for _, c := range v {
				if c < 'a' || c > 'z' {
					return false
				}
			}
		case "^[0-9]+$":
			if v == "" {
				return false
			}
			for _, c := range v {
				if c < '0' || c > '9' {
					return false
				}
			}
		}
	}
	return true
}

// LocalValid checks a scalar against the scalar keywords of s (used only to bias sampling).
func LocalValid(s M, v any) bool {
	switch t := v.(type) {
	case int:
		return numOK(s, float64(t))
	case float64:
		return numOK(s, t)
	case string:
		return strOK(s, t)
	}
	return true
}

func typeOf(s M) string {
	switch t := s["type"].(type) {
	case string:
		return t
	case []any:
		for _, x := range t {
			if x != "null" {
				return x.(string)
			}
		}
	}
	return ""
}

var FormatSamples = map[string][]string{
	"date":      {"2023-01-02", "1999-12-28", "2000-02-28"},
	"time":      {"15:04:05", "00:00:00", "23:59:59"},
	"date-time": {"2023-01-02T03:04:05Z", "1999-12-28T23:59:59Z"},
	"ipv4":      {"127.0.0.1", "10.1.2.3"},
	"ipv6":      {"::1", "fe80::1"},
}

// Sample tries to build a valid instance of s.
func (g *G) Sample(s M, depth int) any {
	r := g.R
	if ref, ok := s["$ref"].(string); ok {
		name := ref[strings.LastIndex(ref, "/")+1:]
		if d, ok := g.Defs[name].(M); ok && depth < 8 {
			return g.Sample(d, depth+1)
		}
		return nil
	}
	if e, ok := s["enum"].([]any); ok {
		return core.Pick(r, e)
	}
	for _, kind := range []string{"allOf", "anyOf"} {
		if bs, ok := s[kind].([]any); ok {
			o := M{}
			chosen := bs
			if kind == "anyOf" {
				chosen = core.Sample(r, bs, r.Range(1, len(bs)))
			}
			for _, b := range chosen {
				if x, ok := g.Sample(b.(M), depth+1).(M); ok {
					for k, v := range x {
						o[k] = v
					}
				}
			}
			return o
		}
	}
	if tl, ok := s["type"].([]any); ok && len(tl) == 2 && r.P(0.15) {
		return nil
	}
	switch typeOf(s) {
	case "integer", "number":
		cands := []any{-4, -3, -2, -1, 0, 1, 2, 3, 4, 5, 6, 7, 8, 9, 10, 11}
		if g.O.BigInts {
			cands = append(cands, 127, 128, 255, 256, -128, -129, 32767, 32768, 65535, 65536, 2147483647, 2147483648, 4294967295, 4294967296, -2147483648, -2147483649)
		}
		if typeOf(s) == "number" {
			cands = append(cands, 0.5, 1.5, 2.25, 7.75)
		}
		core.Shuffle(r, cands)
		if r.P(0.8) {
			for _, c := range cands {
				if LocalValid(s, c) {
					return c
				}
			}
		}
		return cands[0]
	case "string":
		if f, ok := s["format"].(string); ok {
			if r.P(0.85) {
				return core.Pick(r, FormatSamples[f])
			}
			return core.Pick(r, []string{"x", "", "not-a-date"})
		}
		cands := []any{"", "a", "ab", "abc", "abcd", "zzzzzzz", "12", "a1z", "bz", "abz", "az", "123", "abcz"}
		if g.O.Unicode {
			cands = append(cands, "日本語", "éa", "aé", "日本")
		}
		core.Shuffle(r, cands)
		if r.P(0.8) {
			for _, c := range cands {
				if LocalValid(s, c) {
					return c
				}
			}
		}
		return cands[0]
	case "boolean":
		return r.P(0.5)
	case "array":
		lo, hi := 0, 4
		if m, ok := s["minItems"]; ok {
			lo = int(toF(m))
		}
		if m, ok := s["maxItems"]; ok {
			hi = int(toF(m))
		}
		n := r.Range(0, 5)
		if r.P(0.8) {
			n = r.Range(lo, max(lo, hi))
		}
		arr := []any{}
		items, _ := s["items"].(M)
		for i := 0; i < n; i++ {
			if items == nil {
				arr = append(arr, 1)
			} else {
				arr = append(arr, g.Sample(items, depth+1))
			}
		}
		return arr
	case "object":
		o := M{}
		props, _ := s["properties"].(M)
		req := map[string]bool{}
		if rl, ok := s["required"].([]any); ok {
			for _, k := range rl {
				req[k.(string)] = true
			}
		}
		for _, k := range core.SortedKeys(props) {
			if req[k] || r.P(0.6) {
				o[k] = g.Sample(props[k].(M), depth+1)
			}
		}
		if ap, ok := s["additionalProperties"]; ok && ap != false && r.P(0.5) {
			key := fmt.Sprintf("extra%d", r.Intn(3))
			if am, ok := ap.(M); ok {
				o[key] = g.Sample(am, depth+1)
			} else {
				o[key] = core.Pick(r, []any{1, "s", true})
			}
		}
		return o
	}
	return core.Pick(r, []any{nil, 1, "s", true})
}

type path []any

func paths(v any, p path, out *[]path) {
	*out = append(*out, append(path(nil), p...))
	switch t := v.(type) {
	case M:
		for _, k := range core.SortedKeys(t) {
			paths(t[k], append(p, k), out)
		}
	case []any:
		for i, x := range t {
			paths(x, append(p, i), out)
		}
	}
}

func setp(v any, p path, nv any, del bool) any {
	if len(p) == 0 {
		return nv
	}
	switch t := v.(type) {
	case M:
		k := p[0].(string)
		if len(p) == 1 && del {
			delete(t, k)
			return t
		}
		t[k] = setp(t[k], p[1:], nv, del)
		return t
	case []any:
		i := p[0].(int)
		t[i] = setp(t[i], p[1:], nv, del)
		return t
	}
	return v
}

func DeepCopy(v any) any {
	switch t := v.(type) {
	case M:
		o := M{}
		for k, x := range t {
			o[k] = DeepCopy(x)
		}
		return o
	case []any:
		o := make([]any, len(t))
		for i, x := range t {
			o[i] = DeepCopy(x)
		}
		return o
	}
	return v
}

// Docs builds n mostly-valid documents, half of them mutated at one position.
func (g *G) Docs(root M, n int) []any {
	r := g.R
	var docs []any
	seen := map[string]bool{}
	for i := 0; i < n; i++ {
		d := g.Sample(root, 0)
		if r.P(0.5) {
			var ps []path
			paths(d, nil, &ps)
			p := core.Pick(r, ps)
			if len(p) > 0 && r.P(0.3) {
				d = setp(d, p, nil, true)
			} else {
				d = setp(d, p, DeepCopy(core.Pick(r, []any{nil, 1, "s", true, []any{}, M{}, 1.5, []any{1}, M{"a": 1}, 0, -1, "ab"})), false)
			}
		}
		js := string(core.MustJSON(d))
		if seen[js] {
			continue
		}
		seen[js] = true
		docs = append(docs, d)
	}
	return docs
}

package sgen

import (
	"strings"

	"verifharness/internal/core"
)

// Pos is one position of a document together with the sub-schema that governs it.
type Pos struct {
	Path   []any // keys / indexes from the root
	Schema M     // the governing schema, $ref already followed
	Via    []string
	// for object positions
	Required []string
	// how the position is reached
	IsProp     bool
	IsRequired bool
	IsItem     bool
	IsMapValue bool
	Nullable   bool
	InArrayDef bool // below a *definition* (or root) whose own type is array: declared array type, K20
	ViaRef     bool
}

func (g *G) resolve(s M) (M, bool) {
	via := false
	for i := 0; i < 8; i++ {
		ref, ok := s["$ref"].(string)
		if !ok {
			return s, via
		}
		name := ref[strings.LastIndex(ref, "/")+1:]
		d, ok := g.Defs[name].(M)
		if !ok {
			return s, via
		}
		s = d
		via = true
	}
	return s, via
}

// FullSample builds a valid instance in which every declared property is present, every array has at
// least one element (within its limits) and no value is null.
func (g *G) FullSample(s M, depth int) any {
	s, _ = g.resolve(s)
	r := g.R
	if e, ok := s["enum"].([]any); ok {
		for _, v := range e {
			if v != nil {
				return v
			}
		}
		return e[0]
	}
	for _, kind := range []string{"allOf", "anyOf"} {
		if bs, ok := s[kind].([]any); ok {
			o := M{}
			chosen := bs
			if kind == "anyOf" {
				chosen = bs[:1]
			}
			for _, b := range chosen {
				if x, ok := g.FullSample(b.(M), depth+1).(M); ok {
					for k, v := range x {
						o[k] = v
					}
				}
			}
			return o
		}
	}
	switch typeOf(s) {
	case "integer", "number":
		cands := []any{1, 2, 3, 4, 5, 6, 7, 8, 9, 10, 0, -1, -2, -3}
		if typeOf(s) == "number" {
			cands = append(cands, 0.5, 1.5, 2.25, 7.75)
		}
		core.Shuffle(r, cands)
		for _, c := range cands {
			if LocalValid(s, c) {
				return c
			}
		}
		return nil
	case "string":
		if f, ok := s["format"].(string); ok {
			return core.Pick(r, FormatSamples[f])
		}
		cands := []any{"a", "ab", "abc", "abcd", "zzzzzzz", "12", "a1z", "bz", "abz", "az", "123", "abcz", ""}
		core.Shuffle(r, cands)
		for _, c := range cands {
			if LocalValid(s, c) {
				return c
			}
		}
		return nil
	case "boolean":
		return r.P(0.5)
	case "array":
		lo, hi := 1, 2
		if m, ok := s["minItems"]; ok && int(toF(m)) > lo {
			lo = int(toF(m))
		}
		if m, ok := s["maxItems"]; ok {
			hi = int(toF(m))
		}
		if hi < lo {
			hi = lo
		}
		n := r.Range(lo, hi)
		arr := []any{}
		items, _ := s["items"].(M)
		for i := 0; i < n; i++ {
			if items == nil {
				arr = append(arr, 1)
			} else {
				arr = append(arr, g.FullSample(items, depth+1))
			}
		}
		return arr
	case "object":
		o := M{}
		props, _ := s["properties"].(M)
		for _, k := range core.SortedKeys(props) {
			if depth < 6 {
				o[k] = g.FullSample(props[k].(M), depth+1)
			}
		}
		if am, ok := s["additionalProperties"].(M); ok && len(props) == 0 && depth < 6 {
			o["k1"] = g.FullSample(am, depth+1)
		}
		return o
	}
	return 1
}

// Positions walks schema and document together.
func (g *G) Positions(root M, doc any) []Pos {
	var out []Pos
	var walk func(s M, v any, p Pos, depth int)
	walk = func(s M, v any, p Pos, depth int) {
		rs, via := g.resolve(s)
		p.ViaRef = p.ViaRef || via
		if via && typeOf(rs) == "array" {
			p.InArrayDef = true
		}
		if tl, ok := rs["type"].([]any); ok && len(tl) == 2 {
			p.Nullable = true
		} else {
			p.Nullable = false
		}
		p.Schema = rs
		if rl, ok := rs["required"].([]any); ok {
			p.Required = nil
			for _, k := range rl {
				p.Required = append(p.Required, k.(string))
			}
		} else {
			p.Required = nil
		}
		cp := p
		cp.Path = append([]any(nil), p.Path...)
		out = append(out, cp)
		if depth > 8 {
			return
		}
		switch t := v.(type) {
		case M:
			props, _ := rs["properties"].(M)
			req := map[string]bool{}
			for _, k := range p.Required {
				req[k] = true
			}
			for _, k := range core.SortedKeys(t) {
				ps, ok := props[k].(M)
				isMapValue := false
				if !ok {
					// a value of a property-less object governed by a typed additionalProperties (a Go map)
					if am, isM := rs["additionalProperties"].(M); isM && len(props) == 0 {
						ps, isMapValue = am, true
					} else {
						continue
					}
				}
				np := p
				np.Path = append(append([]any(nil), p.Path...), k)
				np.IsProp, np.IsRequired, np.IsItem = !isMapValue, req[k], false
				np.IsMapValue = isMapValue
				np.Via = append(append([]string(nil), p.Via...), map[bool]string{false: "prop", true: "mapv"}[isMapValue])
				walk(ps, t[k], np, depth+1)
			}
		case []any:
			items, ok := rs["items"].(M)
			if !ok {
				return
			}
			for i, x := range t {
				if i > 1 {
					break
				}
				np := p
				np.Path = append(append([]any(nil), p.Path...), i)
				np.IsProp, np.IsRequired, np.IsItem = false, false, true
				np.Via = append(append([]string(nil), p.Via...), "item")
				walk(items, x, np, depth+1)
			}
		}
	}
	walk(root, doc, Pos{}, 0)
	return out
}

// SetAt returns a deep copy of doc with the value at path replaced (del: the key removed).
func SetAt(doc any, p []any, nv any, del bool) any {
	return setp(DeepCopy(doc), path(p), DeepCopy(nv), del)
}

// GetAt reads the value at path.
func GetAt(doc any, p []any) (any, bool) {
	cur := doc
	for _, k := range p {
		switch t := cur.(type) {
		case M:
			v, ok := t[k.(string)]
			if !ok {
				return nil, false
			}
			cur = v
		case []any:
			i := k.(int)
			if i >= len(t) {
				return nil, false
			}
			cur = t[i]
		default:
			return nil, false
		}
	}
	return cur, true
}

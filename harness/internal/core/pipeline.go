package core

import (
	"encoding/json"
	"fmt"
	"os"
	"path/filepath"
	"sort"
	"strings"

	"github.com/atombender/go-jsonschema/pkg/generator"
)

// PCase is one generated program plus the documents to run through it.
type PCase struct {
	ID         int
	Cfg        Cfg
	SchemaID   string
	Schema     any    // generic JSON value; marshalled with sorted keys
	Docs       []any  // generic JSON values
	DecodeType string // "" = root type
	Labels     []string
	Stream     string
	// Extra raw-text documents (possibly malformed) run only against the real code, optionally after a
	// prior document was decoded into the same destination (C19).
	Extra []ExtraDoc
	// Files are written next to the main schema file (path relative to the case directory -> content):
	// sibling schemas reached through file $refs, in any directory layout.
	Files map[string][]byte
	// Symlinks are created after Files (path relative to the case directory -> link target as written).
	Symlinks map[string]string
	// MainBytes overrides the serialisation of Schema as the main file's content (YAML spellings, key order).
	MainBytes []byte
}

type ExtraDoc struct {
	Doc   string
	Prior string
	Wire  string // "J" or "Y"
}

type ModelRun struct{ J, Y, Spec string }

type Disagreement struct {
	Case   int    `json:"case"`
	Aspect string `json:"aspect"` // gen | summary | imports | compile | run-json | run-yaml | panic
	Doc    string `json:"doc,omitempty"`
	Real   string `json:"real"`
	Model  string `json:"model"`
}

type PResult struct {
	Case        *PCase
	SchemaJSON  []byte
	DocJSON     []string
	Real        *RealResult
	RootName    string
	CompileErr  string
	RunsJ       []RunRes
	RunsY       []RunRes
	ExtraRuns   []RunRes
	ModelGen    string
	ModelIssues []string
	ModelSum    string
	ModelImp    string
	ModelRuns   []ModelRun
	Unsupported bool
	Cert        map[string]string // certificates the driver evaluated on the model's output (req, type, …)
	Unmodelled  int
	Dis         []Disagreement
}

// RootName mirrors Generator.getRootTypeName through the real functions.
func RootName(cfg Cfg, schema any) string {
	if cfg.RootType != "" {
		return cfg.RootType
	}
	if m, ok := schema.(map[string]any); ok && cfg.StructNameFromTitle {
		if t, ok := m["title"].(string); ok && t != "" {
			return generator.VerifIdentifierize(cfg.Caps, cfg.ResolveExtensions, t)
		}
	}
	return generator.VerifIdentifierFromFileName(cfg.Caps, cfg.ResolveExtensions, cfg.FileName)
}

func hasType(summary, name string) bool {
	for _, l := range strings.Split(summary, " | ") {
		if strings.HasPrefix(l, "type "+name+" ") || strings.HasPrefix(l, "alias "+name+" ") {
			return true
		}
	}
	return false
}

// RunPipeline runs real generator, batch compile, real decoders and the Lean model on all cases
// and records every disagreement.
func RunPipeline(cases []*PCase) ([]*PResult, *Batch, error) {
	tmp, err := os.MkdirTemp("", "gjsgen")
	if err != nil {
		return nil, nil, err
	}
	defer os.RemoveAll(tmp)
	results := make([]*PResult, len(cases))
	var progs []Prog
	var leanReqs [][]byte
	var ids []string
	for i, c := range cases {
		r := &PResult{Case: c}
		results[i] = r
		c.Cfg.Pkg = fmt.Sprintf("p%d", c.ID)
		r.SchemaJSON = MustJSON(c.Schema)
		for _, d := range c.Docs {
			r.DocJSON = append(r.DocJSON, string(MustJSON(d)))
		}
		dir := fmt.Sprintf("%s/c%d", tmp, c.ID)
		for name, data := range c.Files {
			fn := filepath.Join(dir, name)
			_ = os.MkdirAll(filepath.Dir(fn), 0o755)
			_ = os.WriteFile(fn, data, 0o644)
		}
		for name, target := range c.Symlinks {
			fn := filepath.Join(dir, name)
			_ = os.MkdirAll(filepath.Dir(fn), 0o755)
			_ = os.Symlink(target, fn)
		}
		mainBytes := r.SchemaJSON
		if c.MainBytes != nil {
			mainBytes = c.MainBytes
		}
		r.Real = RunReal(dir, c.Cfg, c.SchemaID, mainBytes)
		r.RootName = c.DecodeType
		if r.RootName == "" {
			r.RootName = RootName(c.Cfg, c.Schema)
		}
		if r.Real.Src != nil && r.Real.ParseErr == "" && !c.Cfg.OnlyModels {
			p := Prog{ID: c.ID, Files: map[string][]byte{"out.go": r.Real.Src}, YAML: c.Cfg.ExtraImports}
			if hasType(r.Real.Summary, r.RootName) {
				p.Types = []string{r.RootName}
			}
			progs = append(progs, p)
		} else if r.Real.Src != nil && r.Real.ParseErr == "" && c.Cfg.OnlyModels {
			progs = append(progs, Prog{ID: c.ID, Files: map[string][]byte{"out.go": r.Real.Src}})
		}
		req := map[string]any{"op": "gen", "id": c.ID, "cfg": c.Cfg, "schema": json.RawMessage(r.SchemaJSON), "docs": c.Docs, "type": c.DecodeType}
		leanReqs = append(leanReqs, MustJSON(req))
		ids = append(ids, fmt.Sprint(c.ID))
	}
	batch, err := NewBatch(progs)
	if err != nil {
		return nil, nil, err
	}
	if err := batch.Build(); err != nil {
		return nil, batch, err
	}
	// run documents
	var reqs []RunReq
	type slot struct {
		res  *PResult
		doc  int
		yaml bool
	}
	var slots []slot
	for _, r := range results {
		if r.Real.Src == nil || r.Real.ParseErr != "" {
			continue
		}
		if msg, bad := batch.CompileFail[r.Case.ID]; bad {
			r.CompileErr = msg
			continue
		}
		if r.Case.Cfg.OnlyModels {
			continue
		}
		if !hasType(r.Real.Summary, r.RootName) {
			continue
		}
		r.RunsJ = make([]RunRes, len(r.DocJSON))
		if r.Case.Cfg.ExtraImports {
			r.RunsY = make([]RunRes, len(r.DocJSON))
		}
		for di, d := range r.DocJSON {
			reqs = append(reqs, RunReq{Prog: r.Case.ID, Type: r.RootName, Wire: "J", Doc: d})
			slots = append(slots, slot{r, di, false})
			if r.Case.Cfg.ExtraImports {
				reqs = append(reqs, RunReq{Prog: r.Case.ID, Type: r.RootName, Wire: "Y", Doc: d})
				slots = append(slots, slot{r, di, true})
			}
		}
	}
	for _, r := range results {
		if r.RunsJ == nil || len(r.Case.Extra) == 0 {
			continue
		}
		r.ExtraRuns = make([]RunRes, len(r.Case.Extra))
		for ei, e := range r.Case.Extra {
			w := e.Wire
			if w == "" {
				w = "J"
			}
			reqs = append(reqs, RunReq{Prog: r.Case.ID, Type: r.RootName, Wire: w, Doc: e.Doc, Prior: e.Prior})
			slots = append(slots, slot{r, -1 - ei, false})
		}
	}
	out, err := batch.Run(reqs)
	if err != nil {
		return nil, batch, err
	}
	for i, s := range slots {
		if s.doc < 0 {
			s.res.ExtraRuns[-1-s.doc] = out[i]
			continue
		}
		if s.yaml {
			s.res.RunsY[s.doc] = out[i]
		} else {
			s.res.RunsJ[s.doc] = out[i]
		}
	}
	for _, r := range results {
		if msg, bad := batch.CompileFail[r.Case.ID]; bad {
			r.CompileErr = msg
		}
	}
	// model
	answers, err := RunLean(leanReqs, ids)
	if err != nil {
		return nil, batch, err
	}
	for _, r := range results {
		a := answers[fmt.Sprint(r.Case.ID)]
		if g := a.First("GEN"); g != nil && len(g) > 1 {
			r.ModelGen = g[1]
		}
		if strings.HasPrefix(r.ModelGen, "ok") {
			for _, w := range strings.Split(strings.TrimSpace(strings.TrimPrefix(r.ModelGen, "ok")), "ISSUE ") {
				if w = strings.TrimSpace(w); w != "" {
					r.ModelIssues = append(r.ModelIssues, w)
				}
			}
			r.ModelGen = "ok"
		}
		if s := a.First("SUMMARY"); s != nil && len(s) > 1 {
			r.ModelSum = s[1]
		}
		if s := a.First("IMPORTS"); s != nil && len(s) > 1 {
			r.ModelImp = s[1]
		}
		if l := a.First("CERT"); l != nil && len(l) > 1 {
			r.Cert = map[string]string{}
			for _, kv := range strings.Fields(l[1]) {
				if i := strings.IndexByte(kv, '='); i > 0 {
					r.Cert[kv[:i]] = kv[i+1:]
				}
			}
		}
		for _, l := range a.All("RUN") {
			if len(l) >= 5 {
				r.ModelRuns = append(r.ModelRuns, ModelRun{J: l[2], Y: l[3], Spec: l[4]})
			}
		}
		r.compare()
	}
	return results, batch, nil
}

func modelKind(s string) string {
	if i := strings.IndexByte(s, ' '); i >= 0 {
		return s[:i]
	}
	return s
}

func (r *PResult) dis(aspect, doc, real, model string) {
	r.Dis = append(r.Dis, Disagreement{Case: r.Case.ID, Aspect: aspect, Doc: doc, Real: real, Model: model})
}

func (r *PResult) compare() {
	real := r.Real
	if real.Panic != "" || real.Timeout {
		// the model has no panic outcome for the generator: always a disagreement (C18)
		r.dis("gen", "", "panic/timeout: "+real.Panic, r.ModelGen)
		return
	}
	if r.ModelGen == "error unsupported" {
		r.Unsupported = true
		return
	}
	realGen := "ok"
	if real.ErrKind != "" {
		if real.ErrKind == "parse-error" {
			realGen = "parse-error"
		} else {
			realGen = "error " + real.ErrKind
		}
	}
	mg := r.ModelGen
	if strings.HasPrefix(mg, "parse-error") {
		mg = "parse-error"
	}
	if realGen != mg {
		r.dis("gen", "", realGen+" ("+real.ErrMsg+")", r.ModelGen)
		return
	}
	if realGen != "ok" {
		return
	}
	if real.Src == nil {
		if r.ModelSum != "" {
			r.dis("summary", "", "(no output)", r.ModelSum)
		}
		return
	}
	if real.ParseErr != "" || real.Unformatted {
		if len(r.ModelIssues) == 0 {
			r.dis("compile", "", "emitted file does not parse: "+real.ParseErr, "no issue predicted")
		}
		return
	}
	modelUncompilable := len(r.ModelIssues) > 0
	if !(r.CompileErr != "" && modelUncompilable) {
		// (a file both sides agree does not compile is not compared further)
		if dedupLines(real.Summary) != dedupLines(r.ModelSum) {
			r.dis("summary", "", real.Summary, r.ModelSum)
		}
		if real.Imports != r.ModelImp {
			r.dis("imports", "", real.Imports, r.ModelImp)
		}
	}
	for _, m := range r.ModelRuns {
		if modelKind(m.J) == "uncompilable" {
			modelUncompilable = true
		}
	}
	if r.CompileErr != "" {
		if !modelUncompilable {
			r.dis("compile", "", r.CompileErr, "no issue predicted")
		}
		return
	}
	if len(r.ModelIssues) > 0 {
		r.dis("compile", "", "compiles", "issues: "+strings.Join(r.ModelIssues, ","))
		return
	}
	if r.RunsJ == nil {
		return
	}
	for i := range r.DocJSON {
		if i >= len(r.ModelRuns) {
			r.dis("run-json", r.DocJSON[i], r.RunsJ[i].Kind, "(no model answer)")
			continue
		}
		r.cmpRun("run-json", r.DocJSON[i], r.RunsJ[i], r.ModelRuns[i].J)
		if r.RunsY != nil {
			r.cmpRun("run-yaml", r.DocJSON[i], r.RunsY[i], r.ModelRuns[i].Y)
		}
	}
}

func dedupLines(s string) string {
	parts := strings.Split(s, " | ")
	out := parts[:0]
	for i, p := range parts {
		if i == 0 || p != parts[i-1] {
			out = append(out, p)
		}
	}
	return strings.Join(out, " | ")
}

func (r *PResult) cmpRun(aspect, doc string, real RunRes, model string) {
	mk := modelKind(model)
	if mk == "unmodelled" {
		r.Unmodelled++
		return
	}
	switch real.Kind {
	case "ok":
		if model != "ok "+real.Canon {
			r.dis(aspect, doc, "ok "+real.Canon, model)
		}
	case "reject":
		if mk != "reject" {
			r.dis(aspect, doc, "reject ("+real.Msg+")", model)
		}
	case "panic":
		if mk != "panic" {
			r.dis(aspect, doc, "panic ("+real.Msg+")", model)
		}
	default:
		r.dis(aspect, doc, real.Kind+" "+real.Msg, model)
	}
}

// Histogram helpers for evidence.
func CountBy[T any](xs []T, key func(T) string) map[string]int {
	m := map[string]int{}
	for _, x := range xs {
		m[key(x)]++
	}
	return m
}

func SortedKeys[V any](m map[string]V) []string {
	ks := make([]string, 0, len(m))
	for k := range m {
		ks = append(ks, k)
	}
	sort.Strings(ks)
	return ks
}

package core

import (
	"encoding/json"
	"fmt"
	"strconv"
	"strings"
)

// ParseCanon parses the canonical text printed by both sides back into a generic value
// (numbers as json.Number holding "n" or "n/d").
func ParseCanon(s string) (any, error) {
	p := &cparser{s: s}
	v, err := p.value()
	if err != nil {
		return nil, err
	}
	if p.i != len(p.s) {
		return nil, fmt.Errorf("trailing text at %d", p.i)
	}
	return v, nil
}

type cparser struct {
	s string
	i int
}

func (p *cparser) value() (any, error) {
	if p.i >= len(p.s) {
		return nil, fmt.Errorf("unexpected end")
	}
	switch c := p.s[p.i]; {
	case c == '{':
		p.i++
		m := map[string]any{}
		if p.s[p.i] == '}' {
			p.i++
			return m, nil
		}
		for {
			k, err := p.str()
			if err != nil {
				return nil, err
			}
			if p.s[p.i] != ':' {
				return nil, fmt.Errorf("expected : at %d", p.i)
			}
			p.i++
			v, err := p.value()
			if err != nil {
				return nil, err
			}
			m[k] = v
			if p.s[p.i] == ',' {
				p.i++
				continue
			}
			if p.s[p.i] == '}' {
				p.i++
				return m, nil
			}
			return nil, fmt.Errorf("expected , or } at %d", p.i)
		}
	case c == '[':
		p.i++
		a := []any{}
		if p.s[p.i] == ']' {
			p.i++
			return a, nil
		}
		for {
			v, err := p.value()
			if err != nil {
				return nil, err
			}
			a = append(a, v)
			if p.s[p.i] == ',' {
				p.i++
				continue
			}
			if p.s[p.i] == ']' {
				p.i++
				return a, nil
			}
			return nil, fmt.Errorf("expected , or ] at %d", p.i)
		}
	case c == '"':
		return p.str()
	case strings.HasPrefix(p.s[p.i:], "null"):
		p.i += 4
		return nil, nil
	case strings.HasPrefix(p.s[p.i:], "true"):
		p.i += 4
		return true, nil
	case strings.HasPrefix(p.s[p.i:], "false"):
		p.i += 5
		return false, nil
	default:
		j := p.i
		for j < len(p.s) && (p.s[j] == '-' || p.s[j] == '/' || (p.s[j] >= '0' && p.s[j] <= '9')) {
			j++
		}
		if j == p.i {
			return nil, fmt.Errorf("unexpected %q at %d", p.s[p.i], p.i)
		}
		n := json.Number(p.s[p.i:j])
		p.i = j
		return n, nil
	}
}

func (p *cparser) str() (string, error) {
	if p.s[p.i] != '"' {
		return "", fmt.Errorf("expected string at %d", p.i)
	}
	p.i++
	var b strings.Builder
	for p.i < len(p.s) {
		c := p.s[p.i]
		switch {
		case c == '"':
			p.i++
			return b.String(), nil
		case c == '\\':
			n := p.s[p.i+1]
			if n == 'u' {
				v, err := strconv.ParseUint(p.s[p.i+2:p.i+6], 16, 32)
				if err != nil {
					return "", err
				}
				b.WriteRune(rune(v))
				p.i += 6
			} else {
				b.WriteByte(n)
				p.i += 2
			}
		default:
			b.WriteByte(c)
			p.i++
		}
	}
	return "", fmt.Errorf("unterminated string")
}

// CanonValue converts a generic JSON value (json.Number / float64 / int numbers) into the same shape
// ParseCanon produces, so that the two can be compared structurally.
func CanonValue(v any) any {
	out, err := ParseCanon(Canon(reparse(v)))
	if err != nil {
		return nil
	}
	return out
}

func reparse(v any) any {
	b := MustJSON(v)
	x, _ := ParseJSON(b)
	return x
}

func IsEmptyJSON(v any) bool {
	switch t := v.(type) {
	case nil:
		return true
	case bool:
		return !t
	case json.Number:
		return string(t) == "0"
	case string:
		return t == ""
	case []any:
		return len(t) == 0
	case map[string]any:
		return len(t) == 0
	}
	return false
}

// SubsetOK reports whether every non-empty value of doc is reproduced in out at the same place
// (objects: key-wise, empty values may be missing; arrays: same length, element-wise; scalars: equal).
// Both arguments must come from ParseCanon / CanonValue. The returned string names the first loss.
func SubsetOK(doc, out any, path string) (bool, string) {
	switch d := doc.(type) {
	case map[string]any:
		o, ok := out.(map[string]any)
		if !ok {
			return false, path + ": object became " + Canon(out)
		}
		for _, k := range SortedKeys(d) {
			if IsEmptyJSON(d[k]) {
				continue
			}
			ov, ok := o[k]
			if !ok {
				return false, path + "." + k + ": value lost"
			}
			if ok2, why := SubsetOK(d[k], ov, path+"."+k); !ok2 {
				return false, why
			}
		}
		return true, ""
	case []any:
		o, ok := out.([]any)
		if !ok || len(o) != len(d) {
			return false, path + ": array became " + Canon(out)
		}
		for i := range d {
			if ok2, why := SubsetOK(d[i], o[i], fmt.Sprintf("%s[%d]", path, i)); !ok2 {
				return false, why
			}
		}
		return true, ""
	default:
		if Canon(doc) != Canon(out) {
			return false, path + ": " + Canon(doc) + " became " + Canon(out)
		}
		return true, ""
	}
}

package core

import (
	"encoding/json"
	"math"
	"math/big"
	"strconv"
)

// ExactNumber prints a float64 so that its decimal text denotes exactly the float's value when that
// is an integer (Go's shortest form pads with zeros: -2^63 prints as -9223372036854776000).
func ExactNumber(f float64) json.Number {
	if f == math.Trunc(f) && !math.IsInf(f, 0) {
		v, _ := new(big.Float).SetFloat64(f).Int(nil)
		return json.Number(v.String())
	}
	return json.Number(strconv.FormatFloat(f, 'f', -1, 64))
}

func jsonNumber(s string) json.Number { return json.Number(s) }

// Rng is a small deterministic PRNG (splitmix64); every random choice of a check derives from one seed.
type Rng struct{ s uint64 }

func NewRng(seed int64) *Rng { return &Rng{s: uint64(seed)*0x9E3779B97F4A7C15 + 0x1234567} }

func (r *Rng) Uint64() uint64 {
	r.s += 0x9E3779B97F4A7C15
	z := r.s
	z = (z ^ (z >> 30)) * 0xBF58476D1CE4E5B9
	z = (z ^ (z >> 27)) * 0x94D049BB133111EB
	return z ^ (z >> 31)
}
func (r *Rng) Intn(n int) int {
	if n <= 0 {
		return 0
	}
	return int(r.Uint64() % uint64(n))
}
func (r *Rng) Float() float64   { return float64(r.Uint64()>>11) / float64(1<<53) }
func (r *Rng) P(p float64) bool { return r.Float() < p }
func (r *Rng) Range(lo, hi int) int {
	if hi <= lo {
		return lo
	}
	return lo + r.Intn(hi-lo+1)
}
func Pick[T any](r *Rng, xs []T) T { return xs[r.Intn(len(xs))] }
func Shuffle[T any](r *Rng, xs []T) {
	for i := len(xs) - 1; i > 0; i-- {
		j := r.Intn(i + 1)
		xs[i], xs[j] = xs[j], xs[i]
	}
}
func Sample[T any](r *Rng, xs []T, n int) []T {
	c := append([]T(nil), xs...)
	Shuffle(r, c)
	if n > len(c) {
		n = len(c)
	}
	return c[:n]
}

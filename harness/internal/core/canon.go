package core

import (
	"bytes"
	"encoding/json"
	"fmt"
	"math/big"
	"sort"
	"strings"
)

// Canon renders a JSON value in the canonical text both sides of the correspondence print:
// keys sorted bytewise, numbers as exact rationals n or n/d, a fixed string escaping.
// The value must come from ParseJSON (json.Number for numbers).
func Canon(v any) string {
	var b strings.Builder
	canonInto(&b, v)
	return b.String()
}

func CanonStr(s string) string {
	var b strings.Builder
	escapeInto(&b, s)
	return b.String()
}

func escapeInto(b *strings.Builder, s string) {
	b.WriteByte('"')
	for _, r := range s {
		switch {
		case r == '"':
			b.WriteString(`\"`)
		case r == '\\':
			b.WriteString(`\\`)
		case r < 32:
			fmt.Fprintf(b, `\u00%02x`, r)
		default:
			b.WriteRune(r)
		}
	}
	b.WriteByte('"')
}

func RatOfNumber(n json.Number) string {
	r, ok := new(big.Rat).SetString(string(n))
	if !ok {
		return "NaN(" + string(n) + ")"
	}
	return r.RatString()
}

func canonInto(b *strings.Builder, v any) {
	switch t := v.(type) {
	case nil:
		b.WriteString("null")
	case bool:
		if t {
			b.WriteString("true")
		} else {
			b.WriteString("false")
		}
	case json.Number:
		b.WriteString(RatOfNumber(t))
	case float64:
		b.WriteString(RatOfNumber(json.Number(fmt.Sprintf("%v", t))))
	case int:
		fmt.Fprintf(b, "%d", t)
	case int64:
		fmt.Fprintf(b, "%d", t)
	case string:
		escapeInto(b, t)
	case []any:
		b.WriteByte('[')
		for i, x := range t {
			if i > 0 {
				b.WriteByte(',')
			}
			canonInto(b, x)
		}
		b.WriteByte(']')
	case map[string]any:
		keys := make([]string, 0, len(t))
		for k := range t {
			keys = append(keys, k)
		}
		sort.Strings(keys)
		b.WriteByte('{')
		for i, k := range keys {
			if i > 0 {
				b.WriteByte(',')
			}
			escapeInto(b, k)
			b.WriteByte(':')
			canonInto(b, t[k])
		}
		b.WriteByte('}')
	default:
		fmt.Fprintf(b, "?%T", v)
	}
}

// ParseJSON decodes with json.Number.
func ParseJSON(data []byte) (any, error) {
	d := json.NewDecoder(bytes.NewReader(data))
	d.UseNumber()
	var v any
	if err := d.Decode(&v); err != nil {
		return nil, err
	}
	return v, nil
}

// MustJSON marshals with sorted keys (Go's map order) and no HTML escaping.
func MustJSON(v any) []byte {
	var buf bytes.Buffer
	e := json.NewEncoder(&buf)
	e.SetEscapeHTML(false)
	if err := e.Encode(v); err != nil {
		panic(err)
	}
	return bytes.TrimRight(buf.Bytes(), "\n")
}

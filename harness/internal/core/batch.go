package core

import (
	"bufio"
	"bytes"
	"fmt"
	"os"
	"os/exec"
	"path/filepath"
	"regexp"
	"strings"
	"time"
)

// Prog is one emitted package to be compiled and run.
type Prog struct {
	ID    int
	Files map[string][]byte // file name (relative to the package dir) -> source; package clause must be p<ID>
	Types []string          // type names to register for decoding
	YAML  bool              // has UnmarshalYAML methods (generated with --extra-imports)
}

// RunReq asks the runner to decode one document into one type.
type RunReq struct {
	Prog  int
	Type  string
	Wire  string // "J" or "Y"
	Doc   string // JSON text (also fed to yaml.Unmarshal, YAML being a superset)
	Prior string // optional: a document decoded first into the same destination (C19); "" = fresh value
}

// RunRes is the runner's answer.
type RunRes struct {
	Kind  string // ok | reject | panic | missing
	Canon string // canonical re-marshal when ok
	Msg   string // error / panic message
	After string // canonical re-marshal of the destination after the call (only with Prior)
}

// Batch compiles many emitted packages into one binary and runs documents through them.
type Batch struct {
	Dir         string
	Progs       []Prog
	CompileFail map[int]string // prog id -> first compiler message
	bin         string
	BuildTime   time.Duration
	Rounds      int
}

const runnerMain = `package main

import (
	"bufio"
	"bytes"
	"encoding/json"
	"fmt"
	"math/big"
	"os"
	"sort"
	"strings"

	"gopkg.in/yaml.v3"
)

var _ = yaml.Unmarshal

func esc(b *strings.Builder, s string) {
	b.WriteByte('"')
	for _, r := range s {
		switch {
		case r == '"':
			b.WriteString("\\\"")
		case r == '\\':
			b.WriteString("\\\\")
		case r < 32:
			fmt.Fprintf(b, "\\u00%02x", r)
		default:
			b.WriteRune(r)
		}
	}
	b.WriteByte('"')
}

func canonInto(b *strings.Builder, v any) {
	switch t := v.(type) {
	case nil:
		b.WriteString("null")
	case bool:
		if t {
			b.WriteString("true")
		} else {
			b.WriteString("false")
		}
	case json.Number:
		r, ok := new(big.Rat).SetString(string(t))
		if !ok {
			b.WriteString("NaN")
		} else {
			b.WriteString(r.RatString())
		}
	case string:
		esc(b, t)
	case []any:
		b.WriteByte('[')
		for i, x := range t {
			if i > 0 {
				b.WriteByte(',')
			}
			canonInto(b, x)
		}
		b.WriteByte(']')
	case map[string]any:
		keys := make([]string, 0, len(t))
		for k := range t {
			keys = append(keys, k)
		}
		sort.Strings(keys)
		b.WriteByte('{')
		for i, k := range keys {
			if i > 0 {
				b.WriteByte(',')
			}
			esc(b, k)
			b.WriteByte(':')
			canonInto(b, t[k])
		}
		b.WriteByte('}')
	}
}

func canonOf(v any) string {
	out, err := json.Marshal(v)
	if err != nil {
		return "MARSHAL-ERROR " + err.Error()
	}
	d := json.NewDecoder(bytes.NewReader(out))
	d.UseNumber()
	var g any
	if err := d.Decode(&g); err != nil {
		return "REPARSE-ERROR " + err.Error()
	}
	var b strings.Builder
	canonInto(&b, g)
	return b.String()
}

func oneLine(s string) string { return strings.ReplaceAll(strings.ReplaceAll(s, "\n", " "), "\t", " ") }

func decode(wire string, doc string, v any) (err error) {
	if wire == "Y" {
		return yaml.Unmarshal([]byte(doc), v)
	}
	return json.Unmarshal([]byte(doc), v)
}

func main() {
	sc := bufio.NewScanner(os.Stdin)
	sc.Buffer(make([]byte, 1<<22), 1<<22)
	w := bufio.NewWriter(os.Stdout)
	defer w.Flush()
	for sc.Scan() {
		parts := strings.SplitN(sc.Text(), "\t", 5)
		if len(parts) < 5 {
			fmt.Fprintf(w, "bad-line\n")
			continue
		}
		key, wire, prior, doc := parts[0]+"."+parts[1], parts[2], parts[3], parts[4]
		mk, ok := reg[key]
		if !ok {
			fmt.Fprintf(w, "missing\n")
			w.Flush()
			continue
		}
		func() {
			v := mk()
			before := ""
			defer func() {
				if r := recover(); r != nil {
					fmt.Fprintf(w, "panic\t%s\n", oneLine(fmt.Sprint(r)))
				}
				w.Flush()
			}()
			if prior != "" {
				if err := decode(wire, prior, v); err != nil {
					fmt.Fprintf(w, "prior-rejected\t%s\n", oneLine(err.Error()))
					return
				}
				before = canonOf(v)
			}
			if err := decode(wire, doc, v); err != nil {
				if prior != "" {
					fmt.Fprintf(w, "reject\t%s\t%s\t%s\n", oneLine(err.Error()), before, canonOf(v))
				} else {
					fmt.Fprintf(w, "reject\t%s\n", oneLine(err.Error()))
				}
			} else {
				fmt.Fprintf(w, "ok\t%s\n", canonOf(v))
			}
		}()
	}
}
`

func NewBatch(progs []Prog) (*Batch, error) {
	dir, err := os.MkdirTemp("", "gjsbatch")
	if err != nil {
		return nil, err
	}
	return &Batch{Dir: dir, Progs: progs, CompileFail: map[int]string{}}, nil
}

func (b *Batch) Close() { _ = os.RemoveAll(b.Dir) }

func harnessDir() string {
	if d := os.Getenv("VERIF_HARNESS_DIR"); d != "" {
		return d
	}
	if d := os.Getenv("VERIF_DIR"); d != "" {
		return filepath.Join(d, "harness")
	}
	return "/verif/harness"
}

// HarnessDir is the directory of the harness sources (tools, runner template).
func HarnessDir() string { return harnessDir() }

func GoEnv() []string {
	env := os.Environ()
	env = append(env, "GOFLAGS=-mod=mod", "GOWORK=off", "GOPROXY=off", "GOSUMDB=off", "GOTOOLCHAIN=local")
	return env
}

var compileErrRe = regexp.MustCompile(`(?m)^(?:\./)?p(\d+)/[^:\s]+:\d+(?::\d+)?: (.*)$`)

// Build writes all packages and builds the runner, dropping packages that do not compile
// (recorded in CompileFail) until the rest builds.
func (b *Batch) Build() error {
	start := time.Now()
	tmpl := filepath.Join(harnessDir(), "runner_template")
	for _, f := range []string{"go.mod", "go.sum"} {
		data, err := os.ReadFile(filepath.Join(tmpl, f))
		if err != nil {
			return err
		}
		if err := os.WriteFile(filepath.Join(b.Dir, f), data, 0o644); err != nil {
			return err
		}
	}
	if err := os.WriteFile(filepath.Join(b.Dir, "main.go"), []byte(runnerMain), 0o644); err != nil {
		return err
	}
	for _, p := range b.Progs {
		pd := filepath.Join(b.Dir, fmt.Sprintf("p%d", p.ID))
		if err := os.MkdirAll(pd, 0o755); err != nil {
			return err
		}
		for name, src := range p.Files {
			if err := os.WriteFile(filepath.Join(pd, name), src, 0o644); err != nil {
				return err
			}
		}
	}
	for round := 0; round < 200; round++ {
		b.Rounds = round + 1
		var reg strings.Builder
		reg.WriteString("package main\n\nimport (\n")
		n := 0
		for _, p := range b.Progs {
			if _, bad := b.CompileFail[p.ID]; bad {
				continue
			}
			if len(p.Types) == 0 {
				// nothing to decode into (e.g. --only-models), but the package must still compile
				fmt.Fprintf(&reg, "\t_ \"run/p%d\"\n", p.ID)
				continue
			}
			fmt.Fprintf(&reg, "\tp%d \"run/p%d\"\n", p.ID, p.ID)
			n++
		}
		reg.WriteString(")\n\nvar reg = map[string]func() any{\n")
		for _, p := range b.Progs {
			if _, bad := b.CompileFail[p.ID]; bad {
				continue
			}
			for _, t := range p.Types {
				fmt.Fprintf(&reg, "\t\"%d.%s\": func() any { return new(p%d.%s) },\n", p.ID, t, p.ID, t)
			}
		}
		reg.WriteString("}\n")
		if err := os.WriteFile(filepath.Join(b.Dir, "reg.go"), []byte(reg.String()), 0o644); err != nil {
			return err
		}
		cmd := exec.Command("go", "build", "-o", "runner", ".")
		cmd.Dir = b.Dir
		cmd.Env = GoEnv()
		out, err := cmd.CombinedOutput()
		if err == nil {
			b.bin = filepath.Join(b.Dir, "runner")
			b.BuildTime = time.Since(start)
			return nil
		}
		found := false
		for _, m := range compileErrRe.FindAllStringSubmatch(string(out), -1) {
			var id int
			fmt.Sscan(m[1], &id)
			if _, ok := b.CompileFail[id]; !ok {
				b.CompileFail[id] = m[2]
				found = true
			}
		}
		if !found {
			return fmt.Errorf("runner build failed without an attributable package:\n%s", out)
		}
	}
	return fmt.Errorf("runner build did not converge")
}

// Run feeds the requests to the runner. A crash of the runner process (fatal error, stack
// overflow) is attributed to the request being processed and the runner is restarted.
func (b *Batch) Run(reqs []RunReq) ([]RunRes, error) {
	res := make([]RunRes, len(reqs))
	i := 0
	for i < len(reqs) {
		var in bytes.Buffer
		for _, r := range reqs[i:] {
			fmt.Fprintf(&in, "%d\t%s\t%s\t%s\t%s\n", r.Prog, r.Type, r.Wire, strings.ReplaceAll(r.Prior, "\t", " "), strings.ReplaceAll(r.Doc, "\t", " "))
		}
		cmd := exec.Command(b.bin)
		cmd.Stdin = &in
		cmd.Env = append(os.Environ(), "GOMEMLIMIT=2GiB")
		var stderr bytes.Buffer
		cmd.Stderr = &stderr
		outPipe, err := cmd.StdoutPipe()
		if err != nil {
			return nil, err
		}
		if err := cmd.Start(); err != nil {
			return nil, err
		}
		sc := bufio.NewScanner(outPipe)
		sc.Buffer(make([]byte, 1<<22), 1<<22)
		got := 0
		for sc.Scan() {
			if i+got >= len(reqs) {
				break
			}
			parts := strings.Split(sc.Text(), "\t")
			r := RunRes{Kind: parts[0]}
			switch parts[0] {
			case "ok":
				if len(parts) > 1 {
					r.Canon = parts[1]
				}
			case "reject":
				if len(parts) > 1 {
					r.Msg = parts[1]
				}
				if len(parts) > 3 {
					r.Canon, r.After = parts[2], parts[3]
				}
			default:
				if len(parts) > 1 {
					r.Msg = parts[1]
				}
			}
			res[i+got] = r
			got++
		}
		werr := cmd.Wait()
		i += got
		if i < len(reqs) {
			if werr == nil && got == 0 {
				return nil, fmt.Errorf("runner produced no output: %s", stderr.String())
			}
			// the process died while handling request i
			msg := stderr.String()
			if len(msg) > 300 {
				msg = msg[:300]
			}
			res[i] = RunRes{Kind: "panic", Msg: "process-crash: " + strings.ReplaceAll(msg, "\n", " ")}
			i++
		}
	}
	return res, nil
}

// ClassifyReject maps a real error message to a small enum (evidence histograms only; never compared).
func ClassifyReject(msg string) string {
	switch {
	case strings.Contains(msg, ": required"):
		return "required"
	case strings.Contains(msg, "cannot unmarshal"):
		return "type"
	case strings.Contains(msg, "length: must be"):
		return "length"
	case strings.Contains(msg, "pattern match"):
		return "pattern"
	case strings.Contains(msg, "must be a multiple of"):
		return "multipleOf"
	case strings.Contains(msg, ": must be null"):
		return "null"
	case strings.Contains(msg, ": must be"):
		return "bound"
	case strings.Contains(msg, "invalid value (expected one of"):
		return "enum"
	case strings.Contains(msg, "all validators failed"):
		return "anyOf"
	case strings.Contains(msg, "parsing time"), strings.Contains(msg, "ParseAddr"):
		return "format"
	}
	return "other"
}

package core

import (
	"fmt"
	"go/ast"
	"go/format"
	"go/parser"
	"go/token"
	"os"
	"path/filepath"
	"sort"
	"strconv"
	"strings"
	"time"

	"github.com/atombender/go-jsonschema/pkg/generator"
)

// Cfg is the option set of one generator run, in the shape the Lean driver reads (parseCfg).
type Cfg struct {
	Tags                []string `json:"tags"`
	Caps                []string `json:"caps,omitempty"`
	OnlyModels          bool     `json:"onlyModels,omitempty"`
	MinSizedInts        bool     `json:"minSizedInts,omitempty"`
	ExtraImports        bool     `json:"extraImports,omitempty"`
	StructNameFromTitle bool     `json:"structNameFromTitle,omitempty"`
	Pkg                 string   `json:"pkg"`
	OutputName          string   `json:"outputName"`
	RootType            string   `json:"rootType,omitempty"`
	FileName            string   `json:"fileName"`
	ResolveExtensions   []string `json:"resolveExtensions,omitempty"`
}

func DefaultCfg() Cfg {
	return Cfg{Tags: []string{"json", "yaml", "mapstructure"}, Pkg: "x", OutputName: "-", FileName: "schema.json"}
}

// RealResult is what the real generator did with one input.
type RealResult struct {
	ErrKind     string // "" = success; else a class derived from the message
	ErrMsg      string
	Panic       string
	Timeout     bool
	Src         []byte // the emitted file (single output)
	Sources     map[string][]byte
	Warnings    []string
	Summary     string
	Imports     string
	ParseErr    string // go/parser error on the emitted file
	Unformatted bool   // warner said "could not be formatted"
	GofmtStable bool
	RootName    string
}

func ClassifyGenErr(msg string) string {
	switch {
	case strings.Contains(msg, "schema has no root"):
		return "no-root"
	case strings.Contains(msg, "array property must have 'items'"):
		return "array-items"
	case strings.Contains(msg, "enum array cannot be empty"):
		return "empty-enum"
	case strings.Contains(msg, "enum has non-primitive value"):
		return "enum-non-primitive"
	case strings.Contains(msg, "unknown JSON Schema type"):
		return "unknown-type"
	case strings.Contains(msg, "unexpected type"):
		return "unexpected-type"
	case strings.Contains(msg, "definition does not exist in schema"):
		return "def-missing"
	case strings.Contains(msg, "cannot generate referenced type"):
		return "bad-ref"
	case strings.Contains(msg, "canno have empty anyOf array"):
		return "empty-anyof"
	case strings.Contains(msg, "cannot support multiple types for additional properties"):
		return "addl-types"
	case strings.Contains(msg, "types list is empty"):
		return "merge-empty"
	case strings.Contains(msg, "expected named type"):
		return "expected-named"
	case strings.Contains(msg, "unable to map schema URI to Go package name"):
		return "no-package"
	case strings.Contains(msg, "schema must not be null"), strings.Contains(msg, "failed to unmarshal"),
		strings.Contains(msg, "error parsing"):
		return "parse-error"
	case strings.Contains(msg, "cannot resolve schema"), strings.Contains(msg, "could not follow $ref"):
		return "file-missing"
	}
	return "other"
}

func (c Cfg) GeneratorConfig(schemaID string, warner func(string)) generator.Config {
	gc := generator.Config{
		Warner:              warner,
		ExtraImports:        c.ExtraImports,
		Capitalizations:     c.Caps,
		DefaultOutputName:   c.OutputName,
		DefaultPackageName:  c.Pkg,
		ResolveExtensions:   c.ResolveExtensions,
		YAMLExtensions:      []string{".yml", ".yaml"},
		StructNameFromTitle: c.StructNameFromTitle,
		Tags:                c.Tags,
		OnlyModels:          c.OnlyModels,
		MinSizedInts:        c.MinSizedInts,
	}
	if c.RootType != "" {
		gc.SchemaMappings = []generator.SchemaMapping{{SchemaID: schemaID, PackageName: c.Pkg, RootType: c.RootType, OutputName: c.OutputName}}
	}
	return gc
}

// RunRealFiles runs the real generator in-process on files already written under dir.
func RunRealFiles(gc generator.Config, files []string, timeout time.Duration) *RealResult {
	res := &RealResult{}
	done := make(chan struct{})
	var warnings []string
	gc.Warner = func(s string) { warnings = append(warnings, s) }
	go func() {
		defer close(done)
		defer func() {
			if r := recover(); r != nil {
				res.Panic = fmt.Sprint(r)
			}
		}()
		g, err := generator.New(gc)
		if err != nil {
			res.ErrKind, res.ErrMsg = "new", err.Error()
			return
		}
		for _, f := range files {
			if err := g.DoFile(f); err != nil {
				res.ErrMsg = err.Error()
				res.ErrKind = ClassifyGenErr(res.ErrMsg)
				return
			}
		}
		res.Sources = g.Sources()
	}()
	select {
	case <-done:
	case <-time.After(timeout):
		res.Timeout = true
		return res
	}
	res.Warnings = warnings
	for _, w := range warnings {
		if strings.Contains(w, "could not be formatted") {
			res.Unformatted = true
		}
	}
	return res
}

// RunReal writes the schema bytes as dir/cfg.FileName and generates from it.
func RunReal(dir string, cfg Cfg, schemaID string, schema []byte) *RealResult {
	fn := filepath.Join(dir, cfg.FileName)
	_ = os.MkdirAll(filepath.Dir(fn), 0o755)
	if err := os.WriteFile(fn, schema, 0o644); err != nil {
		panic(err)
	}
	res := RunRealFiles(cfg.GeneratorConfig(schemaID, nil), []string{fn}, 20*time.Second)
	if res.Sources != nil {
		res.Src = res.Sources[cfg.OutputName]
		if res.Src != nil {
			res.Summarize()
		} else {
			res.Summary, res.Imports, res.GofmtStable = "", "", true
		}
	}
	return res
}

func renderExpr(e ast.Expr) string {
	switch t := e.(type) {
	case *ast.Ident:
		return t.Name
	case *ast.StarExpr:
		return "*" + renderExpr(t.X)
	case *ast.ArrayType:
		return "[]" + renderExpr(t.Elt)
	case *ast.MapType:
		return "map[" + renderExpr(t.Key) + "]" + renderExpr(t.Value)
	case *ast.InterfaceType:
		return "interface{}"
	case *ast.SelectorExpr:
		return renderExpr(t.X) + "." + t.Sel.Name
	case *ast.StructType:
		var b strings.Builder
		b.WriteString("struct{")
		for _, f := range t.Fields.List {
			tag := ""
			if f.Tag != nil {
				tag = strings.Trim(f.Tag.Value, "`")
			}
			for _, n := range f.Names {
				fmt.Fprintf(&b, "%s %s `%s`;", n.Name, renderExpr(f.Type), tag)
			}
		}
		b.WriteString("}")
		return b.String()
	}
	return fmt.Sprintf("?%T", e)
}

// litToCanon renders a literal of the emitted value table / constants as canonical JSON text.
func litToCanon(e ast.Expr) string {
	switch t := e.(type) {
	case *ast.BasicLit:
		switch t.Kind {
		case token.STRING:
			s, err := strconv.Unquote(t.Value)
			if err != nil {
				return "?unquote"
			}
			return CanonStr(s)
		case token.INT, token.FLOAT:
			return RatOfNumber(jsonNumber(t.Value))
		}
	case *ast.Ident:
		switch t.Name {
		case "nil":
			return "null"
		case "true", "false":
			return t.Name
		}
	case *ast.UnaryExpr:
		if t.Op == token.SUB {
			return "-" + litToCanon(t.X)
		}
	case *ast.CompositeLit:
		parts := make([]string, 0, len(t.Elts))
		for _, x := range t.Elts {
			parts = append(parts, litToCanon(x))
		}
		return "[" + strings.Join(parts, ",") + "]"
	}
	return fmt.Sprintf("?%T", e)
}

// Summarize fills Summary / Imports / ParseErr / GofmtStable from Src.
func (r *RealResult) Summarize() {
	fs := token.NewFileSet()
	f, err := parser.ParseFile(fs, "out.go", r.Src, parser.ParseComments)
	if err != nil {
		r.ParseErr = err.Error()
		return
	}
	if again, err := format.Source(r.Src); err == nil && string(again) == string(r.Src) {
		r.GofmtStable = true
	}
	var lines []string
	var imps []string
	for _, im := range f.Imports {
		p, _ := strconv.Unquote(im.Path.Value)
		if im.Name != nil {
			imps = append(imps, im.Name.Name+"="+p)
		} else {
			imps = append(imps, p)
		}
	}
	sort.Strings(imps)
	r.Imports = strings.Join(imps, " ")
	for _, d := range f.Decls {
		switch t := d.(type) {
		case *ast.GenDecl:
			for _, s := range t.Specs {
				switch sp := s.(type) {
				case *ast.TypeSpec:
					if sp.Assign.IsValid() {
						lines = append(lines, "alias "+sp.Name.Name+" = "+renderExpr(sp.Type))
					} else {
						lines = append(lines, "type "+sp.Name.Name+" "+renderExpr(sp.Type))
					}
				case *ast.ValueSpec:
					for i, n := range sp.Names {
						if t.Tok == token.CONST {
							ty := ""
							if sp.Type != nil {
								ty = renderExpr(sp.Type)
							}
							lines = append(lines, "const "+n.Name+" "+ty+" = "+litToCanon(sp.Values[i]))
						} else if t.Tok == token.VAR && len(sp.Values) > i {
							lines = append(lines, "var "+n.Name+" = "+litToCanon(sp.Values[i]))
						}
					}
				}
			}
		case *ast.FuncDecl:
			if t.Recv != nil && len(t.Recv.List) == 1 {
				lines = append(lines, "method "+strings.TrimPrefix(renderExpr(t.Recv.List[0].Type), "*")+"."+t.Name.Name)
			} else {
				lines = append(lines, "func "+t.Name.Name)
			}
		}
	}
	sort.Strings(lines)
	r.Summary = strings.Join(lines, " | ")
}

package core

import (
	"bufio"
	"bytes"
	"fmt"
	"os"
	"os/exec"
	"path/filepath"
	"strings"
)

// LeanAnswer is everything the driver printed for one request id.
type LeanAnswer struct {
	Lines [][]string // tab-split lines, without the id column and without END
}

func (a *LeanAnswer) First(tag string) []string {
	for _, l := range a.Lines {
		if len(l) > 0 && l[0] == tag {
			return l
		}
	}
	return nil
}

func (a *LeanAnswer) All(tag string) [][]string {
	var out [][]string
	for _, l := range a.Lines {
		if len(l) > 0 && l[0] == tag {
			out = append(out, l)
		}
	}
	return out
}

func DriverPath() string {
	if p := os.Getenv("VERIF_DRIVER"); p != "" {
		return p
	}
	return filepath.Join(filepath.Dir(harnessDir()), "lean", ".lake", "build", "bin", "driver")
}

// RunLean pipes request lines (each a JSON object with a unique "id") through the compiled model.
// Requests are split over several driver processes.
func RunLean(reqs [][]byte, ids []string) (map[string]*LeanAnswer, error) {
	const workers = 8
	type part struct {
		out map[string]*LeanAnswer
		err error
	}
	chunks := make([][][]byte, workers)
	for i, r := range reqs {
		chunks[i%workers] = append(chunks[i%workers], r)
	}
	ch := make(chan part, workers)
	for w := 0; w < workers; w++ {
		go func(lines [][]byte) {
			out := map[string]*LeanAnswer{}
			if len(lines) == 0 {
				ch <- part{out, nil}
				return
			}
			cmd := exec.Command(DriverPath())
			cmd.Stdin = bytes.NewReader(append(bytes.Join(lines, []byte("\n")), '\n'))
			var stderr bytes.Buffer
			cmd.Stderr = &stderr
			stdout, err := cmd.Output()
			if err != nil {
				ch <- part{nil, fmt.Errorf("lean driver: %v: %s", err, stderr.String())}
				return
			}
			sc := bufio.NewScanner(bytes.NewReader(stdout))
			sc.Buffer(make([]byte, 1<<24), 1<<24)
			for sc.Scan() {
				parts := strings.Split(sc.Text(), "\t")
				if len(parts) < 2 {
					continue
				}
				id := parts[0]
				a := out[id]
				if a == nil {
					a = &LeanAnswer{}
					out[id] = a
				}
				if parts[1] == "END" {
					continue
				}
				a.Lines = append(a.Lines, parts[1:])
			}
			ch <- part{out, nil}
		}(chunks[w])
	}
	all := map[string]*LeanAnswer{}
	var firstErr error
	for w := 0; w < workers; w++ {
		p := <-ch
		if p.err != nil && firstErr == nil {
			firstErr = p.err
		}
		for k, v := range p.out {
			all[k] = v
		}
	}
	if firstErr != nil {
		return nil, firstErr
	}
	for _, id := range ids {
		if _, ok := all[id]; !ok {
			return nil, fmt.Errorf("lean driver gave no answer for request %s", id)
		}
	}
	return all, nil
}

// Package facts extracts, from /repo's current source, the syntactic facts the Lean model relies on and
// sampling is structurally weak at: comparison tokens of the pure cores, ranges over maps, reads of
// options, discarded errors, import registrations, template statements that write the receiver, the order
// of the CLI's effects. The result is regenerated into lean/GJS/Facts.lean on every run and tied to
// lean/GJS/FactsExpected.lean by `rfl` theorems (lean/GJS/FactsTie.lean).
package facts

import (
	"bytes"
	"fmt"
	"go/ast"
	"go/importer"
	"go/parser"
	"go/printer"
	"go/token"
	"go/types"
	"os"
	"path/filepath"
	"regexp"
	"sort"
	"strings"
)

type Facts map[string][]string

func text(fset *token.FileSet, n ast.Node) string {
	var b bytes.Buffer
	_ = printer.Fprint(&b, fset, n)
	return strings.Join(strings.Fields(b.String()), " ")
}

var qualRe = regexp.MustCompile(`\b(fmt|errors|regexp|math|reflect|strings|json|yaml|mapstructure)\.[A-Z]`)

// Extract parses the non-test, non-verif files of the listed packages.
func Extract(root string) (Facts, error) {
	f := Facts{}
	fset := token.NewFileSet()
	imp := importer.ForCompiler(fset, "source", nil)
	cwd, _ := os.Getwd()
	_ = os.Chdir(root)
	defer os.Chdir(cwd)
	for _, dir := range []string{"pkg/mathutils", "pkg/generator", "pkg/codegen", "pkg/schemas", "pkg/yamlutils", "internal/x/text", "."} {
		pkgs, err := parser.ParseDir(fset, filepath.Join(root, dir), func(fi os.FileInfo) bool {
			return !strings.HasSuffix(fi.Name(), "_test.go") && !strings.HasPrefix(fi.Name(), "verif_")
		}, 0)
		if err != nil {
			return nil, err
		}
		for _, p := range pkgs {
			var files []*ast.File
			var names []string
			for n := range p.Files {
				names = append(names, n)
			}
			sort.Strings(names)
			for _, n := range names {
				files = append(files, p.Files[n])
			}
			info := &types.Info{Types: map[ast.Expr]types.TypeAndValue{}}
			conf := types.Config{Importer: imp, Error: func(error) {}}
			_, _ = conf.Check(dir, fset, files, info)
			// functions of this package that range over a map and do not sort: their callers inherit the order
			orderLeaking = map[string]bool{}
			for _, file := range files {
				for _, d := range file.Decls {
					fd, ok := d.(*ast.FuncDecl)
					if !ok || fd.Body == nil {
						continue
					}
					ranges, sorts := false, false
					ast.Inspect(fd.Body, func(m ast.Node) bool {
						switch t := m.(type) {
						case *ast.RangeStmt:
							if tv, ok := info.Types[t.X]; ok && tv.Type != nil {
								if _, isMap := tv.Type.Underlying().(*types.Map); isMap {
									ranges = true
								}
							}
						case *ast.CallExpr:
							if fun := text(fset, t.Fun); strings.HasPrefix(fun, "sort.") || strings.HasPrefix(fun, "slices.Sort") {
								sorts = true
							}
						}
						return true
					})
					if ranges && !sorts {
						orderLeaking[fd.Name.Name] = true
					}
				}
			}
			for _, file := range files {
				extractFile(f, fset, info, dir, file)
			}
		}
	}
	for k := range f {
		if k != "receiverWrites" && k != "cliOrder" && k != "genBoundary" {
			sort.Strings(f[k])
		}
	}
	return f, nil
}

// orderLeaking: names of the functions of the package being extracted that range over a map without sorting
var orderLeaking = map[string]bool{}

func isErrorType(t types.Type) bool {
	if t == nil {
		return false
	}
	if n, ok := t.(*types.Named); ok && n.Obj().Name() == "error" && n.Obj().Pkg() == nil {
		return true
	}
	if tup, ok := t.(*types.Tuple); ok {
		for i := 0; i < tup.Len(); i++ {
			if isErrorType(tup.At(i).Type()) {
				return true
			}
		}
	}
	return false
}

func extractFile(f Facts, fset *token.FileSet, info *types.Info, dir string, file *ast.File) {
	for _, d := range file.Decls {
		if gd, ok := d.(*ast.GenDecl); ok {
			// package-level variables: the model treats a generation as a function of its inputs — nothing is carried from
			// one output, generator or run to the next except what these variables hold
			if gd.Tok == token.VAR {
				for _, sp := range gd.Specs {
					vs, ok := sp.(*ast.ValueSpec)
					if !ok {
						continue
					}
					for i, nm := range vs.Names {
						if nm.Name == "_" {
							continue
						}
						ty := ""
						if vs.Type != nil {
							ty = text(fset, vs.Type)
						} else if i < len(vs.Values) {
							v := text(fset, vs.Values[i])
							if k := strings.IndexAny(v, "({"); k > 0 {
								v = v[:k]
							}
							ty = "= " + v
						}
						if ty == "= errors.New" || ty == "= fmt.Errorf" {
							continue // error sentinels hold no state
						}
						f["packageVars"] = append(f["packageVars"], dir+": var "+nm.Name+" "+ty)
					}
				}
			}
			// function literals in package-level variables (main.go: rootCmd.Run)
			ast.Inspect(gd, func(m ast.Node) bool {
				if kv, ok := m.(*ast.KeyValueExpr); ok {
					if fl, ok := kv.Value.(*ast.FuncLit); ok {
						extractFunc(f, fset, info, dir, "var."+text(fset, kv.Key), fl.Body)
						return false
					}
				}
				return true
			})
			continue
		}
		fd, ok := d.(*ast.FuncDecl)
		if !ok || fd.Body == nil {
			continue
		}
		fn := fd.Name.Name
		if fd.Recv != nil && len(fd.Recv.List) == 1 {
			fn = strings.TrimPrefix(text(fset, fd.Recv.List[0].Type), "*") + "." + fn
		}
		extractFunc(f, fset, info, dir, fn, fd.Body)
	}
}

var optRe = regexp.MustCompile(`\bconfig\.(OnlyModels|Tags|ExtraImports|Capitalizations|StructNameFromTitle|MinSizedInts|SchemaMappings|ResolveExtensions|YAMLExtensions|DefaultPackageName|DefaultOutputName)\b`)

func extractFunc(f Facts, fset *token.FileSet, info *types.Info, dir, fn string, body *ast.BlockStmt) {
	{
		fd := struct{ Body *ast.BlockStmt }{body}
		where := dir + " " + fn
		var conds []string
		var walk func(n ast.Node)
		walk = func(n ast.Node) {
			if n == nil {
				return
			}
			switch t := n.(type) {
			case *ast.IfStmt:
				if t.Init != nil {
					walk(t.Init)
				}
				c := text(fset, t.Cond)
				if strings.Contains(c, "config.") {
					f["optionReads"] = append(f["optionReads"], where+": if "+c)
				}
				if fn == "NormalizeBounds" {
					ast.Inspect(t.Cond, func(m ast.Node) bool {
						if b, ok := m.(*ast.BinaryExpr); ok {
							switch b.Op {
							case token.LSS, token.GTR, token.LEQ, token.GEQ:
								f["nbComparisons"] = append(f["nbComparisons"], text(fset, b))
							}
						}
						return true
					})
				}
				conds = append(conds, c)
				walk(t.Body)
				conds = conds[:len(conds)-1]
				if t.Else != nil {
					conds = append(conds, "!("+c+")")
					walk(t.Else)
					conds = conds[:len(conds)-1]
				}
				return
			case *ast.CaseClause:
				if fn == "PrimitiveTypeFromJSONSchemaType" && len(t.List) > 0 {
					// the format table of the string branch: the labels of every clause made of string literals, the kind of
					// type built in it and every string literal inside (package path, type name)
					var labels []string
					for _, e := range t.List {
						if bl, ok := e.(*ast.BasicLit); ok && bl.Kind == token.STRING {
							labels = append(labels, bl.Value)
						}
					}
					if len(labels) == len(t.List) {
						kind, lits := "", []string{}
						for _, st := range t.Body {
							ast.Inspect(st, func(m ast.Node) bool {
								switch x := m.(type) {
								case *ast.CompositeLit:
									if kind == "" {
										kind = text(fset, x.Type)
									}
								case *ast.BasicLit:
									if x.Kind == token.STRING {
										lits = append(lits, x.Value)
									}
								}
								return true
							})
						}
						f["stringFormats"] = append(f["stringFormats"], "case "+strings.Join(labels, ", ")+": "+kind+" "+strings.Join(lits, " "))
					}
				}
				if strings.HasPrefix(fn, "adjustFor") {
					for _, e := range t.List {
						f["intLimits"] = append(f["intLimits"], fn+": case "+text(fset, e))
					}
				}
			case *ast.ReturnStmt:
				if strings.HasPrefix(fn, "adjustFor") {
					f["intLimits"] = append(f["intLimits"], fn+": "+text(fset, t))
				}
			case *ast.RangeStmt:
				if m := optRe.FindString(text(fset, t.X)); m != "" {
					f["optionReads"] = append(f["optionReads"], where+": range "+text(fset, t.X))
				}
				if tv, ok := info.Types[t.X]; ok && tv.Type != nil {
					if _, isMap := tv.Type.Underlying().(*types.Map); isMap {
						f["mapRanges"] = append(f["mapRanges"], where+": range "+text(fset, t.X))
					}
				}
			case *ast.AssignStmt:
				// main.go's mapping assembly: which field of a schema mapping is set from what, under which conditions
				if dir == "." && len(t.Lhs) == 1 && strings.HasPrefix(text(fset, t.Lhs[0]), "mapping.") {
					f["cliOrder"] = append(f["cliOrder"], fn+": "+text(fset, t)+" when ["+strings.Join(conds, " && ")+"]")
				}
				for i, l := range t.Lhs {
					if id, ok := l.(*ast.Ident); ok && id.Name == "_" {
						rhs := t.Rhs[0]
						if len(t.Rhs) == len(t.Lhs) {
							rhs = t.Rhs[i]
						}
						if call, ok := rhs.(*ast.CallExpr); ok {
							if tv, ok := info.Types[call]; ok && isErrorType(tv.Type) {
								f["droppedErrors"] = append(f["droppedErrors"], where+": _ = "+text(fset, call.Fun))
							}
						}
					}
				}
			case *ast.ExprStmt:
				if call, ok := t.X.(*ast.CallExpr); ok {
					if tv, ok := info.Types[call]; ok && isErrorType(tv.Type) {
						f["droppedErrors"] = append(f["droppedErrors"], where+": (ignored) "+text(fset, call.Fun))
					}
					fun := text(fset, call.Fun)
					if strings.HasSuffix(fun, "AddImport") {
						args := make([]string, len(call.Args))
						for i, a := range call.Args {
							args[i] = text(fset, a)
						}
						f["addImports"] = append(f["addImports"], where+": AddImport("+strings.Join(args, ", ")+") when ["+strings.Join(conds, " && ")+"]")
					}
					if dir == "." {
						switch {
						case strings.Contains(fun, "os.Exit"), strings.Contains(fun, "abort"):
							f["cliOrder"] = append(f["cliOrder"], fn+": "+text(fset, call)+" when ["+strings.Join(conds, " && ")+"]")
						}
					}
				}
			case *ast.BranchStmt:
				if t.Tok == token.CONTINUE && len(conds) > 0 && strings.Contains(conds[len(conds)-1], "err != nil") {
					f["droppedErrors"] = append(f["droppedErrors"], where+": continue after "+conds[len(conds)-1])
				}
			case *ast.CallExpr:
				fun := text(fset, t.Fun)
				if strings.HasPrefix(fun, "maps.") {
					// maps.Keys / maps.Values / maps.All: iteration in map order without a range statement
					f["mapRanges"] = append(f["mapRanges"], where+": calls "+fun+" [iterates a map]")
				}
				if last := fun[strings.LastIndex(fun, ".")+1:]; orderLeaking[last] && !strings.Contains(fun, "(") {
					args := make([]string, len(t.Args))
					for i, a := range t.Args {
						args[i] = text(fset, a)
					}
					f["mapRanges"] = append(f["mapRanges"], where+": calls "+last+"("+strings.Join(args, ", ")+") [ranges over a map, does not sort]")
				}
				for _, a := range t.Args {
					if m := optRe.FindString(text(fset, a)); m != "" && !strings.Contains(text(fset, a), "(") {
						f["optionReads"] = append(f["optionReads"], where+": "+fun+"(… "+text(fset, a)+" …)")
					}
				}
				if dir == "." {
					for _, key := range []string{"stringSliceToStringMap", "generator.New", "generator.DoFile", "generator.Sources", "os.Stdout.Write", "os.MkdirAll", "os.OpenFile", "w.Write"} {
						if fun == key {
							f["cliOrder"] = append(f["cliOrder"], fn+": "+key+" when ["+strings.Join(conds, " && ")+"]")
						}
					}
				}
				// template text
				if (strings.HasSuffix(fun, "Printlnf") || strings.HasSuffix(fun, "Printf") || strings.HasSuffix(fun, "Commentf")) && len(t.Args) > 0 &&
					(strings.HasSuffix(dir, "generator")) {
					tpl := text(fset, t.Args[0])
					for _, q := range qualRe.FindAllString(tpl, -1) {
						f["templateQualifiers"] = append(f["templateQualifiers"], where+": "+strings.TrimSuffix(q[:len(q)-1], "."))
					}
					if strings.Contains(fn, "ormatter.generate") || strings.Contains(fn, "ormatter.enumUnmarshal") {
						if strings.Contains(tpl, "*j =") || strings.Contains(tpl, "return nil") || strings.Contains(tpl, "j.") {
							f["receiverWrites"] = append(f["receiverWrites"], fn+": "+tpl)
						}
					}
					if fn == "numericValidator.genBoundary" || fn == "numericValidator.generate" {
						f["genBoundary"] = append(f["genBoundary"], fn+": "+tpl)
					}
				}
			}
			// generic descent
			ast.Inspect(n, func(m ast.Node) bool {
				if m == n {
					return true
				}
				if m == nil {
					return false
				}
				walk(m)
				return false
			})
		}
		walk(fd.Body)
		// genBoundary's operator assignments
		if fn == "numericValidator.genBoundary" {
			ast.Inspect(fd.Body, func(m ast.Node) bool {
				if a, ok := m.(*ast.AssignStmt); ok {
					f["genBoundary"] = append(f["genBoundary"], fn+": "+text(fset, a))
				}
				if i, ok := m.(*ast.IfStmt); ok {
					f["genBoundary"] = append(f["genBoundary"], fn+": if "+text(fset, i.Cond))
				}
				return true
			})
		}
		// boundOf: which rounding each side gets (R11): every condition and every return, in source order
		if fn == "numericValidator.boundOf" {
			ast.Inspect(fd.Body, func(m ast.Node) bool {
				switch t := m.(type) {
				case *ast.IfStmt:
					f["genBoundary"] = append(f["genBoundary"], fn+": if "+text(fset, t.Cond))
				case *ast.ReturnStmt:
					f["genBoundary"] = append(f["genBoundary"], fn+": "+text(fset, t))
				}
				return true
			})
		}
		if fn == "numericValidator.valueOf" || fn == "getMinIntType" || fn == "PrimitiveTypeFromJSONSchemaType" {
			ast.Inspect(fd.Body, func(m ast.Node) bool {
				switch t := m.(type) {
				case *ast.AssignStmt:
					s := text(fset, t)
					if strings.Contains(s, "nil") || strings.Contains(s, "1.0") {
						f["minIntBookkeeping"] = append(f["minIntBookkeeping"], fn+": "+s)
					}
				case *ast.ReturnStmt:
					if fn == "numericValidator.valueOf" {
						f["genBoundary"] = append(f["genBoundary"], fn+": "+text(fset, t))
					}
				}
				return true
			})
		}
	}
}

func leanStr(s string) string {
	var b strings.Builder
	b.WriteByte('"')
	for _, r := range s {
		switch r {
		case '"':
			b.WriteString(`\"`)
		case '\\':
			b.WriteString(`\\`)
		case '\n':
			b.WriteString(`\n`)
		case '\t':
			b.WriteString(`\t`)
		default:
			b.WriteRune(r)
		}
	}
	b.WriteByte('"')
	return b.String()
}

// Lean renders the facts as a Lean module in the given namespace.
func (f Facts) Lean(namespace, header string) string {
	var b strings.Builder
	b.WriteString(header)
	fmt.Fprintf(&b, "namespace %s\n\n", namespace)
	keys := make([]string, 0, len(f))
	for k := range f {
		keys = append(keys, k)
	}
	sort.Strings(keys)
	for _, k := range keys {
		fmt.Fprintf(&b, "def %s : List String := [\n", k)
		for i, s := range f[k] {
			sep := ","
			if i == len(f[k])-1 {
				sep = ""
			}
			fmt.Fprintf(&b, "  %s%s\n", leanStr(s), sep)
		}
		b.WriteString("]\n\n")
	}
	fmt.Fprintf(&b, "end %s\n", namespace)
	return b.String()
}

var Groups = []string{"addImports", "cliOrder", "droppedErrors", "genBoundary", "intLimits", "mapRanges", "minIntBookkeeping", "nbComparisons", "optionReads", "receiverWrites", "templateQualifiers"}

module run

go 1.23.0

require (
	github.com/atombender/go-jsonschema v0.0.0
	github.com/go-viper/mapstructure/v2 v2.1.0
	gopkg.in/yaml.v3 v3.0.1
)

replace github.com/atombender/go-jsonschema => /repo

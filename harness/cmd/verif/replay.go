package main

import (
	"encoding/json"
	"fmt"
	"os"

	"verifharness/internal/core"
)

// cmdReplay re-runs the case recorded in a replay file against the current tree and prints both sides.
func cmdReplay(path string) int {
	b, err := os.ReadFile(path)
	if err != nil {
		fmt.Fprintln(os.Stderr, err)
		return 2
	}
	var v struct {
		Property string `json:"property"`
		Kind     string `json:"kind"`
		What     string `json:"what"`
		Replay   struct {
			Kind   string          `json:"kind"`
			Cfg    *core.Cfg       `json:"cfg"`
			Schema json.RawMessage `json:"schema"`
			Doc    json.RawMessage `json:"doc"`
			Type   string          `json:"type"`
			Broken string          `json:"broken"`
		} `json:"replay"`
	}
	if err := json.Unmarshal(b, &v); err != nil {
		fmt.Fprintln(os.Stderr, err)
		return 2
	}
	fmt.Printf("property %s (%s): %s\n", v.Property, v.Kind, v.What)
	if v.Replay.Broken != "" {
		fmt.Println("broken obligation:", v.Replay.Broken)
	}
	if v.Replay.Kind != "program-doc" || len(v.Replay.Schema) == 0 {
		fmt.Println("(not a program-doc replay; the file itself describes the failing call)")
		fmt.Println(string(b))
		return 0
	}
	cfg := core.DefaultCfg()
	cfg.RootType = "Root"
	if v.Replay.Cfg != nil {
		cfg = *v.Replay.Cfg
	}
	schema, _ := core.ParseJSON(v.Replay.Schema)
	var docs []any
	if len(v.Replay.Doc) > 0 {
		d, _ := core.ParseJSON(v.Replay.Doc)
		docs = []any{d}
	}
	res, batch, err := core.RunPipeline([]*core.PCase{{ID: 0, Cfg: cfg, Schema: schema, Docs: docs, DecodeType: v.Replay.Type, Stream: "replay"}})
	if batch != nil {
		defer batch.Close()
	}
	if err != nil {
		fmt.Println("pipeline error:", err)
		return 2
	}
	r := res[0]
	fmt.Println("schema:", string(r.SchemaJSON))
	fmt.Printf("generator: err=%q panic=%q compile=%q\n", r.Real.ErrMsg, r.Real.Panic, r.CompileErr)
	fmt.Println("model gen:", r.ModelGen, r.ModelIssues)
	for i, d := range r.DocJSON {
		fmt.Println("doc:", d)
		if i < len(r.RunsJ) {
			fmt.Printf("  real  json: %s %s %s\n", r.RunsJ[i].Kind, r.RunsJ[i].Canon, r.RunsJ[i].Msg)
		}
		if r.RunsY != nil && i < len(r.RunsY) {
			fmt.Printf("  real  yaml: %s %s %s\n", r.RunsY[i].Kind, r.RunsY[i].Canon, r.RunsY[i].Msg)
		}
		if i < len(r.ModelRuns) {
			fmt.Printf("  model json: %s\n  model yaml: %s\n  reference : %s\n", r.ModelRuns[i].J, r.ModelRuns[i].Y, r.ModelRuns[i].Spec)
		}
	}
	for _, d := range r.Dis {
		fmt.Printf("disagreement: %+v\n", d)
	}
	return 0
}

package main

import (
	"fmt"
	"os"
)

func main() {
	if len(os.Args) < 2 {
		fmt.Fprintln(os.Stderr, "usage: verif <sweep|check|replay|factgen> ...")
		os.Exit(2)
	}
	switch os.Args[1] {
	case "sweep":
		os.Exit(cmdSweep(os.Args[2:]))
	default:
		fmt.Fprintln(os.Stderr, "unknown command", os.Args[1])
		os.Exit(2)
	}
}

package main

import (
	"fmt"
	"os"
	"strconv"
	"time"

	"verifharness/internal/checks"
	"verifharness/internal/engine"
)

func main() {
	if len(os.Args) < 2 {
		fmt.Fprintln(os.Stderr, "usage: verif <check ID tier|sweep|replay FILE> ...")
		os.Exit(2)
	}
	switch os.Args[1] {
	case "sweep":
		os.Exit(cmdSweep(os.Args[2:]))
	case "factgen":
		os.Exit(cmdFactgen(os.Args[2:]))
	case "replay":
		if len(os.Args) < 3 {
			fmt.Fprintln(os.Stderr, "usage: verif replay <file>")
			os.Exit(2)
		}
		os.Exit(cmdReplay(os.Args[2]))
	case "gentwice":
		// helper of C12: generate one schema file several times in THIS (fresh) process and print the outputs separated
		// by a marker line, so that the caller can compare the first generation of a process with its later ones
		if len(os.Args) < 3 {
			os.Exit(2)
		}
		for _, out := range checks.GenSeveralTimes(os.Args[2], 3) {
			fmt.Print(out)
			fmt.Println("\n=====VERIF-GENERATION-END=====")
		}
		os.Exit(0)
	case "check":
		if len(os.Args) < 4 {
			fmt.Fprintln(os.Stderr, "usage: verif check <ID> <quick|thorough>")
			os.Exit(2)
		}
		os.Exit(cmdCheck(os.Args[2], os.Args[3]))
	default:
		fmt.Fprintln(os.Stderr, "unknown command", os.Args[1])
		os.Exit(2)
	}
}

func cmdCheck(id, tier string) int {
	if t := os.Getenv("VERIF_TIER"); t == "quick" || t == "thorough" {
		tier = t
	}
	seed := int64(20260926)
	if s := os.Getenv("VERIF_SEED"); s != "" {
		if v, err := strconv.ParseInt(s, 10, 64); err == nil {
			seed = v
		}
	}
	ck := checks.Registry[id]
	if ck == nil {
		fmt.Fprintln(os.Stderr, "no check for", id)
		return 2
	}
	c := engine.NewCtx(id, tier, seed)
	ck.Run(c)
	checks.Cleanup()
	if err := c.WriteEvidence(); err != nil {
		fmt.Fprintln(os.Stderr, "evidence:", err)
		return 2
	}
	fmt.Printf("%s %s: evaluations=%d distinct=%d programs=%d theorems=%d/%d violations=%d known=%d wall=%.1fs\n",
		id, tier, c.Evaluations, c.Distinct(), c.Programs, len(c.Discharged), len(c.Obligations), len(c.Violations), len(c.Known), time.Since(c.Start).Seconds())
	if len(c.Violations) > 0 {
		return 1
	}
	return 0
}

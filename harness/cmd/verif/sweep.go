package main

import (
	"encoding/json"
	"flag"
	"fmt"
	"sort"
	"strings"

	"verifharness/internal/core"
	"verifharness/internal/sgen"
)

// cmdSweep: development aid — random programs through the whole pipeline, print disagreements.
func cmdSweep(args []string) int {
	fs := flag.NewFlagSet("sweep", flag.ExitOnError)
	seed := fs.Int64("seed", 1, "seed")
	n := fs.Int("n", 200, "programs")
	feat := fs.String("feat", "tree", "tree|defs|all|comp|addl")
	yaml := fs.Bool("yaml", false, "extra-imports + yaml path")
	minsized := fs.Bool("minsized", false, "min-sized-ints")
	show := fs.Int("show", 10, "disagreements to print")
	_ = fs.Parse(args)
	r := core.NewRng(*seed)
	o := sgen.Opts{MaxDepth: 3, Enums: true, Nullable: true, Unicode: true}
	switch *feat {
	case "defs":
		o.Defs = true
	case "all":
		o = sgen.AllOpts()
	case "comp":
		o.Comp = true
	case "addl":
		o.Addl = true
	case "defaults":
		o.Defaults = true
	case "formats":
		o.Formats = true
	}
	o.BigInts = *minsized
	var cases []*core.PCase
	for i := 0; i < *n; i++ {
		g := sgen.New(r, o)
		root := g.Root("")
		cfg := core.DefaultCfg()
		cfg.RootType = "Root"
		cfg.ExtraImports = *yaml
		cfg.MinSizedInts = *minsized
		cases = append(cases, &core.PCase{ID: i, Cfg: cfg, Schema: root, Docs: g.Docs(root, 14)})
	}
	res, batch, err := core.RunPipeline(cases)
	if batch != nil {
		defer batch.Close()
	}
	if err != nil {
		fmt.Println("pipeline error:", err)
		return 2
	}
	var all []core.Disagreement
	gen := map[string]int{}
	docs, unsupported, compileFail := 0, 0, 0
	verdicts := map[string]int{}
	for _, p := range res {
		if p.Unsupported {
			unsupported++
			continue
		}
		gen[p.ModelGen]++
		if p.CompileErr != "" {
			compileFail++
		}
		for _, rr := range p.RunsJ {
			docs++
			k := rr.Kind
			if k == "reject" {
				k += ":" + core.ClassifyReject(rr.Msg)
			}
			verdicts[k]++
		}
		all = append(all, p.Dis...)
	}
	fmt.Printf("programs=%d unsupported=%d compile-fail=%d docs=%d build=%v rounds=%d disagreements=%d\n", len(res), unsupported, compileFail, docs, batch.BuildTime, batch.Rounds, len(all))
	fmt.Println("gen:", gen)
	fmt.Println("verdicts:", verdicts)
	byAspect := map[string]int{}
	for _, d := range all {
		byAspect[d.Aspect]++
	}
	fmt.Println("by aspect:", byAspect)
	sort.SliceStable(all, func(i, j int) bool { return all[i].Aspect < all[j].Aspect })
	shown := map[string]int{}
	for _, d := range all {
		if shown[d.Aspect] >= *show {
			continue
		}
		shown[d.Aspect]++
		var sch []byte
		for _, p := range res {
			if p.Case.ID == d.Case {
				sch = p.SchemaJSON
			}
		}
		b, _ := json.Marshal(d)
		s := string(b)
		if len(s) > 600 {
			s = s[:600]
		}
		fmt.Println(s)
		ss := strings.TrimSpace(string(sch))
		if len(ss) > 700 {
			ss = ss[:700]
		}
		fmt.Println("   schema:", ss)
	}
	return 0
}

package main

import (
	"fmt"
	"os"
	"path/filepath"

	"verifharness/internal/engine"
	"verifharness/internal/facts"
)

// cmdFactgen prints the facts, or with -expected rewrites lean/GJS/FactsExpected.lean from the current tree
// (a deliberate, reviewed act: never done by a check).
func cmdFactgen(args []string) int {
	f, err := facts.Extract("/repo")
	if err != nil {
		fmt.Fprintln(os.Stderr, err)
		return 2
	}
	if len(args) > 0 && args[0] == "-expected" {
		path := filepath.Join(engine.VerifDir, "lean", "GJS", "FactsExpected.lean")
		hdr := "/-\n  Hand-reviewed expectations for the facts regenerated from /repo (GJS/Facts.lean).\n  Written once from the tree the model was validated against; every later difference is a broken tie.\n-/\n"
		if err := os.WriteFile(path, []byte(f.Lean("GJS.FactsExpected", hdr)), 0o644); err != nil {
			fmt.Fprintln(os.Stderr, err)
			return 2
		}
		fmt.Println("wrote", path)
		return 0
	}
	fmt.Print(f.Lean("GJS.Facts", ""))
	return 0
}
